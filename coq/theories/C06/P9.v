From Goml Require Import Common.Base C06.Model C06.Spec.
From Coq Require Import Permutation.
From Goml Require Import C06.P1 C06.P2 C06.P3 C06.P4 C06.P8.

Section S.
Variable E : tenv.

(* ---- gensym names ---- *)
Lemma gensyms_spec n s : fst (gensyms n s) = map (fun i => G (gen s + N.of_nat i)) (seq 0 n) /\
  gen (snd (gensyms n s)) = (gen s + N.of_nat n)%N /\ diag (snd (gensyms n s)) = diag s.
Proof. unfold gensyms. cbn. auto. Qed.

Lemma gensyms_length n s : length (fst (gensyms n s)) = n.
Proof. unfold gensyms. cbn. now rewrite map_length, seq_length. Qed.

Lemma gensyms_in n s x : In x (fst (gensyms n s)) -> exists m, x = G m /\ (gen s <= m < gen s + N.of_nat n)%N.
Proof.
  unfold gensyms. cbn. intro H. apply in_map_iff in H as (i & <- & Hi). apply in_seq in Hi.
  exists (gen s + N.of_nat i)%N. split; [reflexivity|lia].
Qed.

Lemma gensyms_nodup n s : NoDup (fst (gensyms n s)).
Proof.
  unfold gensyms. cbn. apply FinFun.Injective_map_NoDup; [|apply seq_NoDup].
  intros a b H. injection H as H. lia.
Qed.

(* ---- evaluation of the projection prefixes ---- *)
Lemma eval_let_projs v k vs : forall names i rho,
  lookup v rho = Some (VTuple vs) -> ~ In v names -> (i + length names <= length vs)%nat ->
  eval_core (let_projs v names (N.of_nat i) k) rho =
  eval_core k (ext_env names (firstn (length names) (skipn i vs)) rho).
Proof.
  induction names as [|x r IH]; intros i rho Lv Nv Hl; [reflexivity|]. cbn [let_projs eval_core length] in *.
  rewrite Lv, Nat2N.id. destruct (nth_error vs i) as [w|] eqn:Hw; [|apply nth_error_None in Hw; lia].
  replace (N.of_nat i + 1)%N with (N.of_nat (S i)) by lia.
  rewrite IH; [| |intro H; apply Nv; now right|lia].
  - assert (Hs : skipn i vs = w :: skipn (S i) vs).
    { clear -Hw. revert i Hw. induction vs as [|a vs IHv]; intros [|i] Hw; try discriminate; cbn in *; [congruence|now apply IHv]. }
    rewrite Hs. cbn [firstn]. now rewrite ext_env_cons.
  - cbn [lookup]. rewrite name_eqb_neq; [assumption|]. intro Eq. apply Nv. now left.
Qed.

Definition ctor_of_val (c : ctor) (w : value) : option (list value) :=
  match w, c with
  | VEnum e idx vs, CEnum e' idx' => if ((e =? e') && (idx =? idx'))%N then Some vs else None
  | VStruct s vs, CStruct s' => if (s =? s')%N then Some vs else None
  | _, _ => None
  end.

Lemma eval_let_gets v c k w vs : ctor_of_val c w = Some vs -> forall names i rho,
  lookup v rho = Some w -> ~ In v names -> (i + length names <= length vs)%nat ->
  eval_core (let_gets v c names (N.of_nat i) k) rho =
  eval_core k (ext_env names (firstn (length names) (skipn i vs)) rho).
Proof.
  intro Hc. induction names as [|x r IH]; intros i rho Lv Nv Hl; [reflexivity|]. cbn [let_gets eval_core length] in *.
  rewrite Lv, Nat2N.id. destruct (nth_error vs i) as [u|] eqn:Hw; [|apply nth_error_None in Hw; lia].
  assert (Step : forall K : outcome,
     (match w, c with
      | VEnum e idx vs0, CEnum e' idx' => if ((e =? e') && (idx =? idx'))%N then match nth_error vs0 i with Some w0 => K | None => Stuck 4 end else Stuck 4
      | VStruct s vs0, CStruct s' => if (s =? s')%N then match nth_error vs0 i with Some w0 => K | None => Stuck 4 end else Stuck 4
      | _, _ => Stuck 4 end) = K).
  { intro K. unfold ctor_of_val in Hc. destruct w, c; try discriminate.
    - destruct ((e =? e0) && (idx =? idx0))%N; [|discriminate]. injection Hc as ->. now rewrite Hw.
    - destruct (s =? s0)%N; [|discriminate]. injection Hc as ->. now rewrite Hw. }
  replace (N.of_nat i + 1)%N with (N.of_nat (S i)) by lia.
  assert (Hs : skipn i vs = u :: skipn (S i) vs).
  { clear -Hw. revert i Hw. induction vs as [|a vs IHv]; intros [|i] Hw; try discriminate; cbn in *; [congruence|now apply IHv]. }
  rewrite Hs. cbn [firstn]. rewrite ext_env_cons. rewrite <- IH; [| |intro H; apply Nv; now right|lia].
  - unfold ctor_of_val in Hc. destruct w, c; try discriminate.
    + destruct ((e =? e0) && (idx =? idx0))%N; [|discriminate]. injection Hc as ->. now rewrite Hw.
    + destruct (s =? s0)%N; [|discriminate]. injection Hc as ->. now rewrite Hw.
  - cbn [lookup]. rewrite name_eqb_neq; [assumption|]. intro Eq. apply Nv. now left.
Qed.
End S.
