(** C12 model.
    (1) [ml_scan]: crates/lexer/src/lib.rs lex_multiline_str — the hand-written scanner
        for multi-line string literals, on the bytes of [lex.remainder()] (the text after
        the opening two backslashes).  Every slice access is explicit: an access outside
        the slice is the result [OOB] (a Rust panic), never a default value.
    (2) [build]: crates/parser/src/parser.rs build_tree — the replay of parser events
        against the token list, as a sequence of tree-builder operations. *)
From Goml Require Import Common.Base.
Open Scope nat_scope.

(* ------------------------------------------------------------------ *)
(** * the multi-line string scanner *)

Inductive scan := Bump (n : nat) | NoToken | OOB.

Definition get (bs : list N) (i : nat) : option N := nth_error bs i.

Fixpoint skip_to_nl (bs : list N) (i : nat) (fuel : nat) : nat :=   (* first index >= i holding '\n', or len *)
  match fuel with
  | O => i
  | S f => match get bs i with
           | Some c => if (c =? 10)%N then i else skip_to_nl bs (S i) f
           | None => i
           end
  end.

Fixpoint skip_blanks (bs : list N) (i : nat) (fuel : nat) : nat :=
  match fuel with
  | O => i
  | S f => match get bs i with
           | Some c => if ((c =? 32) || (c =? 9))%N then skip_blanks bs (S i) f else i
           | None => i
           end
  end.

(** one iteration of the `loop`; [lines] counts string lines seen so far *)
Fixpoint ml_loop (bs : list N) (consumed lines : nat) (fuel : nat) : scan :=
  let len := length bs in
  match fuel with
  | O => OOB                                   (* unreachable: fuel = len + 1 suffices *)
  | S f =>
    let line_start := consumed in
    if len <=? line_start then (if lines <? 2 then NoToken else Bump consumed)
    else
      let idx := skip_blanks bs line_start len in
      (* if idx + 1 >= bytes.len() || bytes[idx] != b'\\' || bytes[idx + 1] != b'\\' *)
      let not_continuation :=
        if len <=? idx + 1 then Some true
        else match get bs idx with
             | None => None
             | Some c0 => if negb (c0 =? 92)%N then Some true
                          else match get bs (idx + 1) with
                               | None => None
                               | Some c1 => Some (negb (c1 =? 92)%N)
                               end
             end in
      match not_continuation with
      | None => OOB
      | Some true => if 2 <=? lines then Bump (line_start - 1) else NoToken
      | Some false =>
          let idx2 := skip_to_nl bs (idx + 2) len in
          if len <=? idx2 then (if S lines <? 2 then NoToken else Bump idx2)
          else ml_loop bs (idx2 + 1) (S lines) f
      end
  end.

Definition ml_scan (bs : list N) : scan :=
  let len := length bs in
  let c := skip_to_nl bs 0 len in
  if len <=? c then NoToken else ml_loop bs (c + 1) 1 (S len).

(* ------------------------------------------------------------------ *)
(** * build_tree *)

Inductive event := EvOpen (tombstone : bool) (forward_parent : option nat) | EvClose | EvAdvance | EvError.

(** a token, as far as build_tree cares: trivia or not (eof tokens never occur in the list) *)
Definition token := bool.   (* true = trivia *)

Inductive bop := Start | Finish | Tok (i : nat) | Diag (at_token : option nat) | Unreachable.

(** trivia attachment: emit tokens while the one at the cursor is trivia *)
Fixpoint eat_trivia (toks : list token) (cursor : nat) (fuel : nat) : list bop * nat :=
  match fuel with
  | O => ([], cursor)
  | S f => match nth_error toks cursor with
           | Some true => let '(ops, c) := eat_trivia toks (S cursor) f in (Tok cursor :: ops, c)
           | _ => ([], cursor)
           end
  end.

(** forward-parent chase from event i: number of non-tombstone kinds to start, or an
    [unreachable!] when a forward parent does not point at an Open event *)
Fixpoint chase (evs : list event) (i : nat) (tomb : bool) (fp : option nat) (fuel : nat) : option nat :=
  let here := if tomb then 0 else 1 in
  match fp with
  | None => Some here
  | Some d =>
      match fuel with
      | O => None
      | S f => match nth_error evs (i + d) with
               | Some (EvOpen t fp') => option_map (plus here) (chase evs (i + d) t fp' f)
               | _ => None
               end
      end
  end.

Fixpoint build_from (evs_all : list event) (toks : list token) (evs : list event) (i cursor : nat) : list bop :=
  match evs with
  | [] => []
  | e :: r =>
      let '(ops, c) :=
        match e with
        | EvOpen t fp => match chase evs_all i t fp (length evs_all) with
                         | Some n => (repeat Start n, cursor)
                         | None => ([Unreachable], cursor)
                         end
        | EvClose => ([Finish], cursor)
        | EvAdvance => match nth_error toks cursor with
                       | Some _ => ([Tok cursor], S cursor)
                       | None => ([], cursor)
                       end
        | EvError => ([Diag (match nth_error toks cursor with Some _ => Some cursor | None => match toks with [] => None | _ => Some (length toks - 1) end end)], cursor)
        end in
      let '(tr, c') := eat_trivia toks c (length toks) in
      ops ++ tr ++ build_from evs_all toks r (S i) c'
  end.

Definition build (evs : list event) (toks : list token) : list bop := build_from evs toks evs 0 0.

Fixpoint leaves (ops : list bop) : list nat :=
  match ops with [] => [] | Tok i :: r => i :: leaves r | _ :: r => leaves r end.

Definition count_adv (evs : list event) : nat := length (filter (fun e => match e with EvAdvance => true | _ => false end) evs).
Definition count_nontrivia (toks : list token) : nat := length (filter negb toks).
