From Goml Require Import Common.Base C12.Model.
Open Scope nat_scope.

(* ---------------- scanner ---------------- *)
Lemma skip_to_nl_ge bs : forall fuel i, i <= skip_to_nl bs i fuel.
Proof.
  induction fuel as [|f IH]; intro i; cbn [skip_to_nl]; [lia|]. unfold get.
  destruct (nth_error bs i) as [c|]; [|lia]. destruct (c =? 10)%N; [lia|]. specialize (IH (S i)). lia.
Qed.

Lemma skip_to_nl_le_len bs i : i <= length bs -> skip_to_nl bs i (length bs) <= length bs.
Proof.
  intro Hi. assert (G : forall fuel j, j <= length bs -> skip_to_nl bs j fuel <= length bs).
  { induction fuel as [|f IH]; intros j Hj; cbn [skip_to_nl]; [assumption|]. unfold get.
    destruct (nth_error bs j) as [c|] eqn:E; [|assumption]. destruct (c =? 10)%N; [assumption|].
    apply IH. assert (j < length bs) by (apply nth_error_Some; congruence). lia. }
  now apply G.
Qed.

Lemma skip_to_nl_hit bs i : i <= length bs -> skip_to_nl bs i (length bs) < length bs ->
  get bs (skip_to_nl bs i (length bs)) = Some 10%N.
Proof.
  intros Hi Hl. assert (G : forall fuel j, length bs <= j + fuel -> skip_to_nl bs j fuel < length bs -> get bs (skip_to_nl bs j fuel) = Some 10%N).
  { induction fuel as [|f IH]; intros j Hj Hr; cbn [skip_to_nl] in *; [lia|]. unfold get in *.
    destruct (nth_error bs j) as [c|] eqn:E; [|apply nth_error_None in E; lia].
    destruct (N.eqb_spec c 10) as [->|Nc]; [exact E|]. apply IH; [lia|assumption]. }
  apply G; [lia|assumption].
Qed.

Lemma skip_blanks_bounds bs : forall fuel i, i <= skip_blanks bs i fuel /\ (i <= length bs -> skip_blanks bs i fuel <= length bs).
Proof.
  induction fuel as [|f IH]; intro i; cbn [skip_blanks]; [lia|]. unfold get.
  destruct (nth_error bs i) as [c|] eqn:E; [|lia]. assert (i < length bs) by (apply nth_error_Some; congruence).
  destruct ((c =? 32) || (c =? 9))%N; [|lia]. destruct (IH (S i)). lia.
Qed.

(** loop invariant: [consumed >= 1] and the byte before it is a newline *)
Lemma ml_loop_spec bs : forall fuel consumed lines,
  1 <= consumed -> get bs (consumed - 1) = Some 10%N -> 1 <= lines -> length bs < consumed + fuel ->
  match ml_loop bs consumed lines fuel with
  | OOB => False
  | NoToken => True
  | Bump c => c <= length bs /\ (c = length bs \/ get bs c = Some 10%N)
  end.
Proof.
  induction fuel as [|f IH]; intros consumed lines Hc Hnl Hl Hf.
  { assert (consumed - 1 < length bs) by (apply nth_error_Some; unfold get in Hnl; congruence). lia. }
  cbn [ml_loop].
  destruct (Nat.leb_spec (length bs) consumed) as [Hle|Hlt].
  { destruct (lines <? 2); [exact I|]. assert (consumed - 1 < length bs) by (apply nth_error_Some; unfold get in Hnl; congruence).
    split; [lia|left; lia]. }
  pose proof (skip_blanks_bounds bs (length bs) consumed) as [B1 B2]. specialize (B2 ltac:(lia)).
  set (idx := skip_blanks bs consumed (length bs)) in *.
  destruct (Nat.leb_spec (length bs) (idx + 1)) as [Hi|Hi].
  { destruct (2 <=? lines); [|exact I]. assert (consumed - 1 < length bs) by lia. split; [lia|right; exact Hnl]. }
  unfold get at 1. destruct (nth_error bs idx) as [c0|] eqn:E0; [|apply nth_error_None in E0; lia].
  destruct (negb (c0 =? 92)%N).
  { destruct (2 <=? lines); [|exact I]. split; [lia|right; exact Hnl]. }
  unfold get at 1. destruct (nth_error bs (idx + 1)) as [c1|] eqn:E1; [|apply nth_error_None in E1; lia].
  destruct (negb (c1 =? 92)%N).
  { destruct (2 <=? lines); [|exact I]. split; [lia|right; exact Hnl]. }
  pose proof (skip_to_nl_le_len bs (idx + 2) ltac:(lia)) as S1.
  pose proof (skip_to_nl_ge bs (length bs) (idx + 2)) as S2.
  set (idx2 := skip_to_nl bs (idx + 2) (length bs)) in *.
  destruct (Nat.leb_spec (length bs) idx2) as [H2|H2].
  { replace (S lines <? 2) with false by (symmetry; apply Nat.ltb_ge; lia). split; [lia|left; lia]. }
  apply IH; try lia. replace (idx2 + 1 - 1) with idx2 by lia. apply skip_to_nl_hit; [lia|exact H2].
Qed.

Lemma ml_scan_spec bs :
  match ml_scan bs with
  | OOB => False
  | NoToken => True
  | Bump c => c <= length bs /\ (c = length bs \/ get bs c = Some 10%N)
  end.
Proof.
  unfold ml_scan. destruct (Nat.leb_spec (length bs) (skip_to_nl bs 0 (length bs))) as [H|H]; [exact I|].
  apply ml_loop_spec; try lia. replace (skip_to_nl bs 0 (length bs) + 1 - 1) with (skip_to_nl bs 0 (length bs)) by lia.
  apply skip_to_nl_hit; [lia|exact H].
Qed.

(* ---------------- build_tree ---------------- *)
Lemma eat_trivia_spec toks : forall fuel c, let '(ops, c') := eat_trivia toks c fuel in
  leaves ops = seq c (c' - c) /\ c <= c' /\ (c <= length toks -> c' <= length toks) /\
  (forall j, c <= j < c' -> nth_error toks j = Some true).
Proof.
  induction fuel as [|f IH]; intro c; cbn [eat_trivia].
  - replace (c - c) with 0 by lia. repeat split; try lia.
  - destruct (nth_error toks c) as [[|]|] eqn:E.
    + specialize (IH (S c)). destruct (eat_trivia toks (S c) f) as [ops c']. destruct IH as (L & H1 & H2 & H3).
      assert (c < length toks) by (apply nth_error_Some; congruence).
      cbn [leaves]. rewrite L. replace (c' - c) with (S (c' - S c)) by lia. repeat split; try lia.
      intros j Hj. destruct (Nat.eq_dec j c) as [->|]; [assumption|apply H3; lia].
    + replace (c - c) with 0 by lia. repeat split; try lia.
    + replace (c - c) with 0 by lia. repeat split; try lia.
Qed.

Lemma leaves_app a b : leaves (a ++ b) = leaves a ++ leaves b.
Proof. induction a as [|x a IH]; [reflexivity|]. destruct x; cbn; now rewrite IH. Qed.

Lemma leaves_repeat_start n : leaves (repeat Start n) = [].
Proof. induction n; cbn; auto. Qed.

(** the leaves are a contiguous, ordered run of token indices starting at the cursor *)
Lemma build_from_leaves all toks : forall evs i c, c <= length toks ->
  exists c', c <= c' <= length toks /\ leaves (build_from all toks evs i c) = seq c (c' - c).
Proof.
  induction evs as [|e r IH]; intros i c Hc; cbn [build_from].
  - exists c. replace (c - c) with 0 by lia. split; [lia|reflexivity].
  - set (step := match e with
        | EvOpen t fp => match chase all i t fp (length all) with Some n => (repeat Start n, c) | None => ([Unreachable], c) end
        | EvClose => ([Finish], c)
        | EvAdvance => match nth_error toks c with Some _ => ([Tok c], S c) | None => ([], c) end
        | EvError => ([Diag (match nth_error toks c with Some _ => Some c | None => match toks with [] => None | _ => Some (length toks - 1) end end)], c)
        end).
    assert (Hs : exists c1, c <= c1 <= length toks /\ leaves (fst step) = seq c (c1 - c) /\ snd step = c1).
    { unfold step. destruct e as [t fp| | | ].
      - destruct (chase all i t fp (length all)); cbn [fst snd]; exists c; replace (c - c) with 0 by lia; (split; [lia|]); split; try reflexivity. apply leaves_repeat_start.
      - exists c. replace (c - c) with 0 by lia. cbn. split; [lia|split; reflexivity].
      - destruct (nth_error toks c) eqn:E.
        + assert (c < length toks) by (apply nth_error_Some; congruence). exists (S c). replace (S c - c) with 1 by lia. cbn. split; [lia|split; reflexivity].
        + exists c. replace (c - c) with 0 by lia. cbn. split; [lia|split; reflexivity].
      - exists c. replace (c - c) with 0 by lia. cbn. split; [lia|split; reflexivity]. }
    destruct Hs as (c1 & Hc1 & L1 & E1). fold step. destruct step as [ops cx]. cbn [fst snd] in *. subst cx.
    pose proof (eat_trivia_spec toks (length toks) c1) as T. destruct (eat_trivia toks c1 (length toks)) as [tr c2].
    destruct T as (L2 & H1 & H2 & _). specialize (H2 ltac:(lia)).
    destruct (IH (S i) c2 H2) as (c3 & Hc3 & L3). exists c3. split; [lia|].
    rewrite !leaves_app, L1, L2, L3.
    replace (c3 - c) with ((c1 - c) + ((c2 - c1) + (c3 - c2))) by lia. rewrite !seq_app.
    replace (c + (c1 - c)) with c1 by lia. replace (c1 + (c2 - c1)) with c2 by lia. reflexivity.
Qed.

Lemma build_leaves_prefix evs toks : exists m, m <= length toks /\ leaves (build evs toks) = seq 0 m.
Proof.
  destruct (build_from_leaves evs toks evs 0 0 ltac:(lia)) as (c' & Hc & L). exists c'. split; [lia|].
  unfold build. rewrite L. f_equal. lia.
Qed.

(* ---------------- losslessness ---------------- *)
Definition settled (toks : list token) (c : nat) : Prop := nth_error toks c <> Some true.

Lemma count_nontrivia_skipn_S toks c b : nth_error toks c = Some b ->
  count_nontrivia (skipn c toks) = (if b then 0 else 1) + count_nontrivia (skipn (S c) toks).
Proof.
  revert c. induction toks as [|t toks IH]; intros [|c] H; try discriminate; cbn in *.
  - injection H as ->. unfold count_nontrivia. cbn. destruct b; reflexivity.
  - now apply IH.
Qed.

Lemma eat_trivia_settles toks : forall fuel c, length toks <= c + fuel ->
  settled toks (snd (eat_trivia toks c fuel)) /\
  count_nontrivia (skipn (snd (eat_trivia toks c fuel)) toks) = count_nontrivia (skipn c toks).
Proof.
  induction fuel as [|f IH]; intros c Hf; cbn [eat_trivia].
  - cbn [snd]. split; [|reflexivity]. unfold settled. assert (nth_error toks c = None) by (apply nth_error_None; lia). congruence.
  - destruct (nth_error toks c) as [[|]|] eqn:E.
    + specialize (IH (S c) ltac:(lia)). destruct (eat_trivia toks (S c) f) as [ops c']. cbn [snd] in *.
      destruct IH as [I1 I2]. split; [assumption|]. rewrite I2. now rewrite (count_nontrivia_skipn_S toks c true E).
    + cbn [snd]. split; [unfold settled; congruence|reflexivity].
    + cbn [snd]. split; [unfold settled; congruence|reflexivity].
Qed.

Lemma eat_trivia_id toks fuel c : settled toks c -> eat_trivia toks c fuel = ([], c).
Proof. intro H. destruct fuel; [reflexivity|]. cbn. unfold settled in H. destruct (nth_error toks c) as [[|]|]; try reflexivity. exfalso. now apply H. Qed.

Lemma build_from_lossless all toks : forall evs i c, c <= length toks -> settled toks c ->
  count_nontrivia (skipn c toks) <= count_adv evs ->
  leaves (build_from all toks evs i c) = seq c (length toks - c).
Proof.
  induction evs as [|e r IH]; intros i c Hc Hs Hn.
  - cbn [build_from leaves]. destruct (nth_error toks c) as [b|] eqn:E.
    + rewrite (count_nontrivia_skipn_S toks c b E) in Hn. destruct b; [exfalso; now apply Hs|cbn in Hn; lia].
    + apply nth_error_None in E. replace (length toks - c) with 0 by lia. reflexivity.
  - cbn [build_from].
    destruct e as [t fp| | | ].
    + destruct (chase all i t fp (length all)); rewrite (eat_trivia_id toks (length toks) c Hs); rewrite !leaves_app;
        cbn [leaves app]; rewrite ?leaves_repeat_start; cbn [app]; apply IH; assumption.
    + rewrite (eat_trivia_id toks (length toks) c Hs). cbn [app leaves]. apply IH; assumption.
    + destruct (nth_error toks c) as [b|] eqn:E.
      * assert (c < length toks) by (apply nth_error_Some; congruence).
        assert (b = false) by (destruct b; [exfalso; now apply Hs|reflexivity]). subst b.
        pose proof (eat_trivia_settles toks (length toks) (S c) ltac:(lia)) as [T1 T2].
        pose proof (eat_trivia_spec toks (length toks) (S c)) as T3.
        destruct (eat_trivia toks (S c) (length toks)) as [tr c2]. cbn [snd] in T1, T2. destruct T3 as (L2 & H1 & H2 & _).
        rewrite (count_nontrivia_skipn_S toks c false E) in Hn. unfold count_adv in Hn. cbn [filter length] in Hn.
        cbn [app leaves]. rewrite leaves_app, L2, (IH (S i) c2); [| lia | assumption | unfold count_adv; lia].
        replace (length toks - c) with (S ((c2 - S c) + (length toks - c2))) by lia. cbn [seq]. f_equal.
        rewrite seq_app. f_equal. f_equal. lia.
      * rewrite (eat_trivia_id toks (length toks) c Hs). cbn [app leaves]. apply IH; try assumption.
        apply nth_error_None in E. rewrite skipn_all2 in * by lia. unfold count_nontrivia in *. cbn in *. lia.
    + rewrite (eat_trivia_id toks (length toks) c Hs). cbn [app leaves]. apply IH; assumption.
Qed.

Lemma build_lossless t fp evs toks : count_nontrivia toks <= count_adv evs ->
  leaves (build (EvOpen t fp :: evs) toks) = seq 0 (length toks).
Proof.
  intro H. unfold build. cbn [build_from].
  pose proof (eat_trivia_settles toks (length toks) 0 ltac:(lia)) as [T1 T2].
  pose proof (eat_trivia_spec toks (length toks) 0) as T3.
  destruct (chase (EvOpen t fp :: evs) 0 t fp (length (EvOpen t fp :: evs))) as [n|];
    destruct (eat_trivia toks 0 (length toks)) as [tr c2]; cbn [snd] in T1, T2; destruct T3 as (L2 & H1 & H2 & _);
    rewrite !leaves_app, L2, ?leaves_repeat_start; cbn [leaves app];
    (rewrite (build_from_lossless (EvOpen t fp :: evs) toks evs 1 c2); [| lia | assumption | rewrite T2; exact H]);
    (replace (length toks) with ((c2 - 0) + (length toks - c2)) at 2 by lia); rewrite seq_app; f_equal; f_equal; lia.
Qed.
