(** C12 — property theorems only *)
From Goml Require Import Common.Base C12.Model C12.Proofs.
Open Scope nat_scope.

(** the multi-line string scanner never indexes outside its slice, never bumps past the
    end of the input, and stops either at the end of input or in front of a newline
    byte — an ASCII byte, hence a UTF-8 character boundary of any valid text *)
Theorem multiline_scanner_safe : forall bs,
  match ml_scan bs with
  | OOB => False
  | NoToken => True
  | Bump c => c <= length bs /\ (c = length bs \/ get bs c = Some 10%N)
  end.
Proof. exact Proofs.ml_scan_spec. Qed.

(** whatever the events are, build_tree puts tokens into the tree in order, without
    gaps or repetition: the leaves are a prefix 0,1,...,m-1 of the token list *)
Theorem tree_leaves_are_a_token_prefix : forall evs toks,
  exists m, m <= length toks /\ leaves (build evs toks) = seq 0 m.
Proof. exact Proofs.build_leaves_prefix. Qed.

(** LOSSLESS: if the parser opened the file node and advanced at least once per
    non-trivia token (its outer loop runs until the real end of input), every token —
    trivia included — is a leaf of the tree, exactly once and in order *)
Theorem tree_is_lossless : forall t fp evs toks,
  count_nontrivia toks <= count_adv evs ->
  leaves (build (EvOpen t fp :: evs) toks) = seq 0 (length toks).
Proof. exact Proofs.build_lossless. Qed.

Example scanner_nonvacuous :
  ml_scan [97; 10; 32; 92; 92; 98; 10; 120]%N = Bump 6 /\ ml_scan [97; 10; 120]%N = NoToken /\
  ml_scan [13; 10; 92; 92; 228; 189; 160; 10; 120]%N = Bump 7 /\ ml_scan [97; 10; 92]%N = NoToken.
Proof. vm_compute. repeat split. Qed.

Example lossless_nonvacuous :
  leaves (build [EvOpen false None; EvAdvance; EvOpen false None; EvAdvance; EvClose; EvClose] [true; false; true; false; true])
  = [0; 1; 2; 3; 4].
Proof. reflexivity. Qed.
