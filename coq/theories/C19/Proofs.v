From Goml Require Import Common.Base Generated.GoKeywords Generated.GensymPrefixes C19.Model.

(* ------------------------------------------------------------------ *)
(** * go_ident always yields a legal Go identifier that is not a keyword *)

Lemma hexdig_alnum d : d < 16 -> is_alnum (hexdig d) = true.
Proof.
  intro H. unfold hexdig, is_alnum, is_alpha, is_upper, is_lower, is_digit.
  destruct (N.ltb_spec d 10); lia.
Qed.

Lemma hex2_ok b : b < 256 -> forallb is_ident_rest (hex2 b) = true.
Proof.
  intro H. unfold hex2. cbn [forallb]. unfold is_ident_rest.
  rewrite !hexdig_alnum; [reflexivity| |].
  - apply N.mod_upper_bound. lia.
  - apply N.div_lt_upper_bound; lia.
Qed.

Lemma utf8_bytes c : c < 1114112 -> Forall (fun b => b < 256) (utf8 c).
Proof.
  intro H. unfold utf8.
  destruct (N.ltb_spec c 128); [repeat constructor; lia|].
  destruct (N.ltb_spec c 2048).
  { repeat constructor.
    - assert (c / 64 < 32) by (apply N.div_lt_upper_bound; lia). lia.
    - assert (c mod 64 < 64) by (apply N.mod_upper_bound; lia). lia. }
  destruct (N.ltb_spec c 65536).
  { repeat constructor.
    - assert (c / 4096 < 16) by (apply N.div_lt_upper_bound; lia). lia.
    - assert ((c / 64) mod 64 < 64) by (apply N.mod_upper_bound; lia). lia.
    - assert (c mod 64 < 64) by (apply N.mod_upper_bound; lia). lia. }
  repeat constructor.
  - assert (c / 262144 < 5) by (apply N.div_lt_upper_bound; lia). lia.
  - assert ((c / 4096) mod 64 < 64) by (apply N.mod_upper_bound; lia). lia.
  - assert ((c / 64) mod 64 < 64) by (apply N.mod_upper_bound; lia). lia.
  - assert (c mod 64 < 64) by (apply N.mod_upper_bound; lia). lia.
Qed.

Lemma forallb_flat_map {A} (p : N -> bool) (f : A -> str) l :
  (forall x, In x l -> forallb p (f x) = true) -> forallb p (flat_map f l) = true.
Proof.
  induction l as [|x l IH]; intro H; cbn [flat_map]; [reflexivity|].
  rewrite forallb_app, H by (left; reflexivity). cbn. apply IH. intros; apply H; now right.
Qed.

Lemma scalar_lt c : is_scalar c = true -> c < 1114112.
Proof. unfold is_scalar. lia. Qed.

Lemma esc_char_ok c : is_scalar c = true -> forallb is_ident_rest (esc_char c) = true.
Proof.
  intro Hs. unfold esc_char.
  destruct (is_alnum c) eqn:Ha; [cbn; unfold is_ident_rest; now rewrite Ha|].
  destruct (c =? 35) eqn:?; [reflexivity|].
  destruct (c =? 95) eqn:?; [reflexivity|].
  cbn [app forallb]. change (is_ident_rest 95) with true. change (is_ident_rest 120) with true.
  cbn [andb]. rewrite forallb_app. cbn [forallb]. change (is_ident_rest 95) with true.
  rewrite andb_true_r.
  apply forallb_flat_map. intros b Hb. apply hex2_ok.
  pose proof (utf8_bytes c (scalar_lt c Hs)) as F. rewrite Forall_forall in F. now apply F.
Qed.

Definition starts_with_underscore (s : str) : bool :=
  match s with c :: _ => c =? 95 | [] => false end.

Lemma spec_keywords_no_underscore :
  forallb (fun k => negb (starts_with_underscore k)) go_spec_keywords = true.
Proof. vm_compute. reflexivity. Qed.

(** the implementation's table covers Go's keyword list: re-checked whenever the
    generated table changes *)
Lemma table_covers_spec :
  forallb (fun k => in_table go_keywords k) go_spec_keywords = true.
Proof. vm_compute. reflexivity. Qed.

Lemma in_table_In t s : in_table t s = true <-> In s t.
Proof.
  unfold in_table. rewrite existsb_exists. split.
  - intros (x & Hx & E). apply list_eqb_spec in E. now subst.
  - intro H. exists s. split; [assumption|]. now apply list_eqb_spec.
Qed.

Lemma go_ident_legal s :
  forallb is_scalar s = true ->
  is_valid_go_ident (go_ident s) = true /\ in_table go_spec_keywords (go_ident s) = false.
Proof.
  intro Hs. unfold go_ident.
  destruct (is_valid_go_ident s && negb (is_go_keyword s)) eqn:E.
  - apply andb_true_iff in E as [E1 E2]. split; [assumption|].
    apply negb_true_iff in E2.
    destruct (in_table go_spec_keywords s) eqn:K; [|reflexivity].
    exfalso. apply in_table_In in K.
    pose proof table_covers_spec as C. rewrite forallb_forall in C.
    specialize (C s K). unfold is_go_keyword in E2. congruence.
  - split.
    + cbn [goml_prefix app is_valid_go_ident]. change (is_ident_start 95) with true.
      cbn [andb forallb]. change (is_ident_rest 103) with true. change (is_ident_rest 111) with true.
      change (is_ident_rest 109) with true. change (is_ident_rest 108) with true.
      change (is_ident_rest 95) with true. cbn [andb].
      apply forallb_flat_map. intros c Hc. apply esc_char_ok.
      rewrite forallb_forall in Hs. now apply Hs.
    + destruct (in_table go_spec_keywords _) eqn:K; [|reflexivity].
      apply in_table_In in K.
      pose proof spec_keywords_no_underscore as C. rewrite forallb_forall in C.
      specialize (C _ K). cbn in C. discriminate.
Qed.

(* ------------------------------------------------------------------ *)
(** * identity on goml identifiers that are not Go keywords *)

Lemma user_ident_valid s : is_user_ident s = true -> is_valid_go_ident s = true.
Proof.
  destruct s as [|c r]; [discriminate|]. cbn. intro H. apply andb_true_iff in H as [H1 H2].
  unfold is_ident_start. now rewrite H1, H2.
Qed.

Lemma go_ident_identity s :
  is_user_ident s = true -> is_go_keyword s = false -> go_ident s = s.
Proof. intros H K. unfold go_ident. now rewrite (user_ident_valid s H), K. Qed.

(* ------------------------------------------------------------------ *)
(** * injectivity on names made of letters, digits and '#' *)

Definition hash_alnum (s : str) : bool := forallb (fun c => is_alnum c || (c =? 35)) s.

Definition esc1 (c : N) : N := if is_alnum c then c else 95.

Lemma esc_char_hash_alnum s : hash_alnum s = true -> flat_map esc_char s = map esc1 s.
Proof.
  induction s as [|c s IH]; [reflexivity|]. cbn [hash_alnum forallb]. intro H.
  apply andb_true_iff in H as [H1 H2]. cbn [flat_map map]. rewrite (IH H2).
  unfold esc_char, esc1. destruct (is_alnum c); [reflexivity|]. cbn in H1. now rewrite H1.
Qed.

Lemma map_esc1_inj s t :
  hash_alnum s = true -> hash_alnum t = true -> map esc1 s = map esc1 t -> s = t.
Proof.
  revert t; induction s as [|c s IH]; intros [|d t] Hs Ht E; try discriminate; [reflexivity|].
  cbn [hash_alnum forallb] in Hs, Ht. apply andb_true_iff in Hs as [Hc Hs], Ht as [Hd Ht].
  cbn [map] in E. injection E as E1 E2. f_equal; [|now apply IH].
  unfold esc1 in E1. destruct (is_alnum c) eqn:Ac, (is_alnum d) eqn:Ad; cbn in Hc, Hd.
  - assumption.
  - subst c. discriminate.
  - subst d. discriminate.
  - apply N.eqb_eq in Hc, Hd. congruence.
Qed.

Lemma go_ident_inj_hash_alnum s t :
  hash_alnum s = true -> hash_alnum t = true -> go_ident s = go_ident t -> s = t.
Proof.
  intros Hs Ht. unfold go_ident.
  destruct (is_valid_go_ident s && negb (is_go_keyword s)) eqn:Es;
  destruct (is_valid_go_ident t && negb (is_go_keyword t)) eqn:Et; intro E.
  - assumption.
  - exfalso. subst s. apply andb_true_iff in Es as [Es _]. cbn in Es.
    cbn [hash_alnum goml_prefix app forallb] in Hs. discriminate.
  - exfalso. subst t. cbn [hash_alnum goml_prefix app forallb] in Ht. discriminate.
  - apply app_inv_head in E. rewrite !esc_char_hash_alnum in E by assumption.
    now apply map_esc1_inj.
Qed.

(** the collision the unchanged tree has: '#' and '_' both become '_' *)
Lemma go_ident_collision_witness :
  let s := [120; 35; 97; 95; 98] (* x#a_b *) in
  let t := [120; 35; 97; 35; 98] (* x#a#b *) in
  s <> t /\ go_ident s = go_ident t.
Proof. split; [discriminate| vm_compute; reflexivity]. Qed.

(* ------------------------------------------------------------------ *)
(** * locals [hint__idx] and temporaries [prefix ++ idx] *)

Lemma digits_prefix_inj d e x y :
  forallb is_digit d = true -> forallb is_digit e = true ->
  match x with c :: _ => is_digit c = false | [] => True end ->
  match y with c :: _ => is_digit c = false | [] => True end ->
  d ++ x = e ++ y -> d = e /\ x = y.
Proof.
  revert e; induction d as [|a d IH]; intros [|b e] Hd He Hx Hy E; cbn [app] in *.
  - now split.
  - subst x. cbn in He. apply andb_true_iff in He as [He _]. congruence.
  - subst y. cbn in Hd. apply andb_true_iff in Hd as [Hd _]. congruence.
  - injection E as -> E. cbn in Hd, He. apply andb_true_iff in Hd as [_ Hd], He as [_ He].
    destruct (IH e Hd He Hx Hy E) as [-> ->]. now split.
Qed.

Lemma digits_suffix_inj a b d e :
  forallb is_digit d = true -> forallb is_digit e = true ->
  a ++ [95] ++ d = b ++ [95] ++ e -> a = b /\ d = e.
Proof.
  intros Hd He E.
  assert (R : rev d ++ (95 :: rev a) = rev e ++ (95 :: rev b)).
  { apply (f_equal (@rev N)) in E. rewrite !rev_app_distr in E. cbn in E.
    rewrite <- !app_assoc in E. exact E. }
  apply digits_prefix_inj in R; try (cbn; reflexivity).
  - destruct R as [R1 R2]. injection R2 as R2.
    apply (f_equal (@rev N)) in R1, R2. rewrite !rev_involutive in R1, R2. now split.
  - rewrite forallb_forall in *. intros x Hx. apply Hd. now apply in_rev.
  - rewrite forallb_forall in *. intros x Hx. apply He. now apply in_rev.
Qed.

Lemma local_go_inj h1 i1 h2 i2 : local_go h1 i1 = local_go h2 i2 -> h1 = h2 /\ i1 = i2.
Proof.
  unfold local_go. intro E.
  change (h1 ++ [95; 95] ++ dec i1) with (h1 ++ [95] ++ [95] ++ dec i1) in E.
  change (h2 ++ [95; 95] ++ dec i2) with (h2 ++ [95] ++ [95] ++ dec i2) in E.
  rewrite !app_assoc in E. rewrite <- !(app_assoc _ [95] (dec _)) in E.
  apply digits_suffix_inj in E; try apply dec_all_digits.
  destruct E as [E1 E2]. apply app_inv_tail in E1. apply dec_inj in E2. now split.
Qed.

Lemma gensym_name_inj p n m : gensym_name p n = gensym_name p m -> n = m.
Proof. unfold gensym_name. intro E. apply app_inv_head in E. now apply dec_inj. Qed.

(** a prefix that does not end in "__" and ends in a non-digit can never produce
    the name of a renamed local *)
Definition prefix_ok (p : str) : bool :=
  match rev p with
  | c :: c' :: _ => negb (is_digit c) && negb ((c =? 95) && (c' =? 95))
  | [c] => negb (is_digit c)
  | [] => false
  end.

Lemma gensym_prefixes_ok : forallb prefix_ok gensym_prefixes = true.
Proof. vm_compute. reflexivity. Qed.

Lemma gensym_local_disjoint p n h i :
  prefix_ok p = true -> gensym_name p n <> local_go h i.
Proof.
  intros Hp E. unfold gensym_name, local_go in E.
  assert (R : rev (dec n) ++ rev p = rev (dec i) ++ (95 :: 95 :: rev h)).
  { apply (f_equal (@rev N)) in E. rewrite !rev_app_distr in E. cbn in E.
    rewrite <- !app_assoc in E. exact E. }
  unfold prefix_ok in Hp.
  apply digits_prefix_inj in R.
  - destruct R as [_ R]. rewrite R in Hp. cbn in Hp. discriminate.
  - rewrite forallb_forall. intros x Hx. apply in_rev in Hx.
    pose proof (dec_all_digits n) as D. rewrite forallb_forall in D. now apply D.
  - rewrite forallb_forall. intros x Hx. apply in_rev in Hx.
    pose proof (dec_all_digits i) as D. rewrite forallb_forall in D. now apply D.
  - destruct (rev p) as [|c [|c' r]]; [discriminate| |].
    + now apply negb_true_iff in Hp.
    + apply andb_true_iff in Hp as [Hp _]. now apply negb_true_iff in Hp.
  - reflexivity.
Qed.

(** ...but a temporary can coincide with a user *function* name, which is kept
    verbatim: user [fn x0] vs match temporary [x0] (design probe n1) *)
Lemma gensym_captures_user_fn_witness :
  let user_fn := [120; 48] (* "x0" *) in
  is_user_ident user_fn = true /\ In [120] gensym_prefixes /\
  go_ident user_fn = go_ident (gensym_name [120] 0).
Proof. vm_compute. repeat split. tauto. Qed.
