(** C19 — property theorems only. Each is closed by [exact] of a lemma from Proofs.v;
    statements are pinned in coq/pins/C19.v. *)
From Goml Require Import Common.Base Generated.GoKeywords Generated.GensymPrefixes C19.Model C19.Proofs.

(** every name the backend prints through [go_ident] is a legal Go identifier and
    not a Go keyword (Go's own keyword list, not the implementation's table) *)
Theorem go_ident_legal : forall s,
  forallb is_scalar s = true ->
  is_valid_go_ident (go_ident s) = true /\ in_table go_spec_keywords (go_ident s) = false.
Proof. exact Proofs.go_ident_legal. Qed.

(** user identifiers that are not Go keywords are printed verbatim *)
Theorem go_ident_identity : forall s,
  is_user_ident s = true -> is_go_keyword s = false -> go_ident s = s.
Proof. exact Proofs.go_ident_identity. Qed.

(** distinct names over letters, digits and '#' get distinct Go identifiers *)
Theorem go_ident_injective_partial : forall s t,
  hash_alnum s = true -> hash_alnum t = true -> go_ident s = go_ident t -> s = t.
Proof. exact Proofs.go_ident_inj_hash_alnum. Qed.

(** ... but not in general: the full statement is refuted on the faithful model *)
Theorem go_ident_injective_refuted : exists s t, s <> t /\ go_ident s = go_ident t.
Proof. eexists; eexists; exact Proofs.go_ident_collision_witness. Qed.

(** locals of one scope: [hint/idx] renamed to [hint__idx] stays injective *)
Theorem local_names_injective : forall h1 i1 h2 i2,
  local_go h1 i1 = local_go h2 i2 -> h1 = h2 /\ i1 = i2.
Proof. exact Proofs.local_go_inj. Qed.

Theorem gensym_names_injective : forall p n m, gensym_name p n = gensym_name p m -> n = m.
Proof. exact Proofs.gensym_name_inj. Qed.

(** no compiler temporary (any prefix used at a [gensym] call site) can coincide
    with a renamed user local *)
Theorem gensym_vs_local_disjoint : forall p n h i,
  In p gensym_prefixes -> gensym_name p n <> local_go h i.
Proof.
  intros p n h i Hp. apply Proofs.gensym_local_disjoint.
  pose proof Proofs.gensym_prefixes_ok as H. rewrite forallb_forall in H. now apply H.
Qed.

(** ... but it can coincide with a user function name (kept verbatim) *)
Theorem gensym_captures_user_fn_refuted : exists f p n,
  is_user_ident f = true /\ In p gensym_prefixes /\ go_ident f = go_ident (gensym_name p n).
Proof. exists [120; 48], [120], 0. exact Proofs.gensym_captures_user_fn_witness. Qed.

(** non-vacuity: concrete inputs meeting the hypotheses *)
Example legal_nonvacuous :
  forallb is_scalar [116;114;97;105;116;35;233;35;103;111] = true /\
  go_ident [103; 111] = [95;103;111;109;108;95;103;111] /\
  hash_alnum [116;35;65;35;109] = true /\
  is_user_ident [120; 95; 49] = true /\ is_go_keyword [120; 95; 49] = false.
Proof. vm_compute. repeat split. Qed.
