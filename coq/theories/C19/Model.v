(** C19 model: name encoding functions of the Go backend.
    Mirrors crates/compiler/src/go/mangle.rs (go_ident, is_valid_go_ident,
    is_go_keyword — table generated), env.rs Gensym::gensym, and the
    [hint/idx -> hint__idx] local renaming done by go_ident on HIR local names. *)
From Goml Require Import Common.Base Generated.GoKeywords.

(** Go's keyword list, from the Go specification (the SPEC; the table the
    implementation consults is [go_keywords], regenerated from mangle.rs). *)
Definition go_spec_keywords : list str := [
  [98;114;101;97;107]; [100;101;102;97;117;108;116]; [102;117;110;99];
  [105;110;116;101;114;102;97;99;101]; [115;101;108;101;99;116]; [99;97;115;101];
  [100;101;102;101;114]; [103;111]; [109;97;112]; [115;116;114;117;99;116];
  [99;104;97;110]; [101;108;115;101]; [103;111;116;111]; [112;97;99;107;97;103;101];
  [115;119;105;116;99;104]; [99;111;110;115;116];
  [102;97;108;108;116;104;114;111;117;103;104]; [105;102]; [114;97;110;103;101];
  [116;121;112;101]; [99;111;110;116;105;110;117;101]; [102;111;114];
  [105;109;112;111;114;116]; [114;101;116;117;114;110]; [118;97;114]].

Definition is_ident_rest (c : N) : bool := is_alnum c || (c =? 95).
Definition is_ident_start (c : N) : bool := is_alpha c || (c =? 95).

(** [is_valid_go_ident]: on code points; a code point >= 128 has only bytes >= 128,
    which are neither alphanumeric nor '_' *)
Definition is_valid_go_ident (s : str) : bool :=
  match s with
  | [] => false
  | c :: r => is_ident_start c && forallb is_ident_rest r
  end.

Definition in_table (t : list str) (s : str) : bool := existsb (list_eqb s) t.
Definition is_go_keyword (s : str) : bool := in_table go_keywords s.

Definition hexdig (d : N) : N := if d <? 10 then 48 + d else 87 + d.
Definition hex2 (b : N) : str := [hexdig (b / 16); hexdig (b mod 16)].

Definition utf8 (c : N) : str :=
  if c <? 128 then [c]
  else if c <? 2048 then [192 + c / 64; 128 + c mod 64]
  else if c <? 65536 then [224 + c / 4096; 128 + (c / 64) mod 64; 128 + c mod 64]
  else [240 + c / 262144; 128 + (c / 4096) mod 64; 128 + (c / 64) mod 64; 128 + c mod 64].

Definition esc_char (c : N) : str :=
  if is_alnum c then [c]
  else if c =? 35 then [95]
  else if c =? 95 then [95]
  else [95; 120] ++ flat_map hex2 (utf8 c) ++ [95].

Definition goml_prefix : str := [95; 103; 111; 109; 108; 95]. (* "_goml_" *)

Definition go_ident (s : str) : str :=
  if is_valid_go_ident s && negb (is_go_keyword s) then s
  else goml_prefix ++ flat_map esc_char s.

(** Unicode scalar values, the only code points a Rust [char] can hold *)
Definition is_scalar (c : N) : bool := (c <? 55296) || ((57343 <? c) && (c <? 1114112)).

(** compiler temporaries: [format!("{}{}", prefix, counter)] *)
Definition gensym_name (prefix : str) (n : N) : str := prefix ++ dec n.

(** HIR local [hint/idx] after go_ident: '/' is not valid so the name is escaped;
    the model of what go_ident does to it is go_ident itself; [local_src] is the
    source form. 47 = '/' *)
Definition local_src (hint : str) (idx : N) : str := hint ++ [47] ++ dec idx.

(** goml identifier grammar: a letter followed by letters, digits, underscores *)
Definition is_user_ident (s : str) : bool :=
  match s with
  | [] => false
  | c :: r => is_alpha c && forallb is_ident_rest r
  end.

(** locals after [anf_renamer]: [name.replace("/", "__")] applied to [hint/idx] *)
Definition local_go (hint : str) (idx : N) : str := hint ++ [95; 95] ++ dec idx.
