From Goml Require Import Common.Base Pkg.Discover.
From Coq Require Import Permutation.

Lemma insert_comm a b l : insert a (insert b l) = insert b (insert a l).
Proof.
  induction l as [|y l IH]; cbn [insert].
  - destruct (N.leb_spec a b), (N.leb_spec b a); try reflexivity; try lia.
    assert (a = b) by lia. now subst.
  - destruct (N.leb_spec b y), (N.leb_spec a y); cbn [insert].
    + destruct (N.leb_spec a b), (N.leb_spec b a); cbn [insert];
        repeat match goal with |- context [?x <=? ?y] => destruct (N.leb_spec x y); try lia end;
        try reflexivity. assert (a = b) by lia. now subst.
    + repeat match goal with |- context [?x <=? ?y] => destruct (N.leb_spec x y); try lia end; reflexivity.
    + repeat match goal with |- context [?x <=? ?y] => destruct (N.leb_spec x y); try lia end; reflexivity.
    + repeat match goal with |- context [?x <=? ?y] => destruct (N.leb_spec x y); try lia end.
      now rewrite IH.
Qed.

Lemma isort_perm l l' : Permutation l l' -> isort l = isort l'.
Proof.
  induction 1; cbn [isort].
  - reflexivity.
  - now rewrite IHPermutation.
  - apply insert_comm.
  - congruence.
Qed.

Lemma fs_get_sim f f' n : fs_sim f f' ->
  match fs_get f n, fs_get f' n with
  | Some a, Some b => dir_sim a b
  | None, None => True
  | _, _ => False
  end.
Proof.
  induction 1 as [|[k d] [k' d'] f f' [Hk Hd] _ IH]; cbn [fs_get]; [exact I|].
  cbn [fst snd] in *. subst k'. destruct (k =? n); [exact Hd|exact IH].
Qed.

Lemma discover_loop_sim fuel f f' q loaded order :
  fs_sim f f' -> discover_loop fuel f q loaded order = discover_loop fuel f' q loaded order.
Proof.
  intro S. revert q loaded order. induction fuel as [|fuel IH]; intros q loaded order; cbn [discover_loop]; [reflexivity|].
  destruct (rev q) as [|n rq]; [reflexivity|].
  destruct (mem n loaded); [apply IH|].
  pose proof (fs_get_sim f f' n S) as G.
  destruct (fs_get f n) as [[d i|]|], (fs_get f' n) as [[d' i'|]|]; cbn in G; try contradiction; try reflexivity.
  destruct G as [<- P]. rewrite (isort_perm _ _ P). destruct (negb (d =? n)); [reflexivity|apply IH].
Qed.

Lemma total_imports_sim f f' : fs_sim f f' -> total_imports f = total_imports f'.
Proof.
  induction 1 as [|[k d] [k' d'] f f' [Hk Hd] _ IH]; [reflexivity|].
  cbn [total_imports fold_right] in *. cbn [snd] in Hd.
  destruct d, d'; cbn in Hd; try contradiction; [|exact IH].
  destruct Hd as [_ P]. rewrite (Permutation_length P). now f_equal.
Qed.

Lemma discover_sim m f f' d i i' :
  fs_sim f f' -> Permutation i i' -> discover m f d i = discover m f' d i'.
Proof.
  intros S P. unfold discover. destruct (negb (d =? m)); [reflexivity|].
  rewrite (isort_perm _ _ P), (Permutation_length P), (total_imports_sim _ _ S).
  now apply discover_loop_sim.
Qed.

(* ---- topo ---- *)

Lemma g_get_sim g g' n : graph_sim g g' ->
  match g_get g n, g_get g' n with
  | Some a, Some b => Permutation a b
  | None, None => True
  | _, _ => False
  end.
Proof.
  induction 1 as [|[k d] [k' d'] g g' [Hk Hd] _ IH]; cbn [g_get]; [exact I|].
  cbn [fst snd] in *. subst k'. destruct (k =? n); [exact Hd|exact IH].
Qed.

Lemma visit_sim fuel g g' : graph_sim g g' ->
  forall n temp st, visit fuel g n temp st = visit fuel g' n temp st.
Proof.
  intro S. induction fuel as [|fuel IH]; intros n temp [perm order]; cbn [visit]; [reflexivity|].
  destruct (mem n perm); [reflexivity|]. destruct (mem n temp); [reflexivity|].
  pose proof (g_get_sim g g' n S) as G.
  destruct (g_get g n) as [i|], (g_get g' n) as [i'|]; try contradiction; [|reflexivity].
  rewrite (isort_perm _ _ G).
  match goal with |- match ?A with _ => _ end = match ?B with _ => _ end => assert (E : A = B) end.
  { generalize (isort i') (perm, order). intro ds. induction ds as [|d r IHr]; intro st; [reflexivity|].
    pose proof (g_get_sim g g' d S) as Gd.
    destruct (g_get g d), (g_get g' d); try contradiction; [|reflexivity].
    rewrite IH. destruct (visit fuel g' d (n :: temp) st); [apply IHr|reflexivity]. }
  now rewrite E.
Qed.

Lemma topo_roots_sim fuel g g' names st :
  graph_sim g g' -> topo_roots fuel g names st = topo_roots fuel g' names st.
Proof.
  intro S. revert st. induction names as [|n r IH]; intro st; cbn [topo_roots]; [reflexivity|].
  destruct (mem n (fst st)); [apply IH|]. rewrite (visit_sim fuel g g' S).
  destruct (visit fuel g' n [] st); [apply IH|reflexivity].
Qed.

Lemma graph_sim_names g g' : graph_sim g g' -> map fst g = map fst g'.
Proof. induction 1 as [|a b g g' [H _] _ IH]; cbn; [reflexivity|]. now rewrite H, IH. Qed.

Lemma graph_sim_length g g' : graph_sim g g' -> length g = length g'.
Proof. induction 1; cbn; congruence. Qed.

Lemma topo_sim g g' : graph_sim g g' -> topo g = topo g'.
Proof.
  intro S. unfold topo. rewrite (graph_sim_names _ _ S), (graph_sim_length _ _ S).
  now rewrite (topo_roots_sim _ g g' _ _ S).
Qed.
