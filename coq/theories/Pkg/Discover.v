(** Package discovery and dependency ordering:
    crates/compiler/src/pipeline/packages.rs discover_packages_with_layout,
    topo_sort_packages / visit_package.  A package's import set is a Rust
    [HashSet<String>]: its iteration order is arbitrary, so the model receives the
    imports as a list in ARBITRARY order and the theorems quantify over all
    permutations of it.  Package names are numbers ordered like the strings. *)
From Goml Require Import Common.Base.
From Coq Require Import Permutation.

(** what [load_package] finds in a package directory *)
Inductive dir :=
| DirOk (declared : N) (imports : list N)   (* imports: HashSet iteration order *)
| DirBad.                                   (* no .gom file / package mismatch between files / parse error *)

Definition fs := list (N * dir).           (* directory name -> contents; absent = missing directory *)

Fixpoint fs_get (f : fs) (n : N) : option dir :=
  match f with [] => None | (k, d) :: r => if k =? n then Some d else fs_get r n end.

(** insertion sort, ascending (Rust [sort] on the names) *)
Fixpoint insert (x : N) (l : list N) : list N :=
  match l with
  | [] => [x]
  | y :: r => if x <=? y then x :: l else y :: insert x r
  end.
Fixpoint isort (l : list N) : list N :=
  match l with [] => [] | x :: r => insert x (isort r) end.

Definition mem (x : N) (l : list N) : bool := existsb (N.eqb x) l.

Inductive derr := ERootName | EMissingDir (n : N) | EBadDir (n : N) | EDeclMismatch (n : N) | EFuel.

Inductive result (A : Type) := Ok (a : A) | Err (e : derr).
Arguments Ok {A}. Arguments Err {A}.

(** the work queue is a Vec used as a stack: [pop] takes the LAST element; imports are
    pushed sorted DESCENDING, so the smallest name is popped first *)
Fixpoint discover_loop (fuel : nat) (f : fs) (queue : list N) (loaded order : list N)
  : result (list N) :=
  match fuel with
  | O => Err EFuel
  | S fuel =>
    match rev queue with
    | [] => Ok order
    | n :: rq =>
        let queue' := rev rq in
        if mem n loaded then discover_loop fuel f queue' loaded order
        else
          match fs_get f n with
          | None => Err (EMissingDir n)
          | Some DirBad => Err (EBadDir n)
          | Some (DirOk declared imports) =>
              if negb (declared =? n) then Err (EDeclMismatch n)
              else discover_loop fuel f (queue' ++ rev (isort imports)) (n :: loaded) (order ++ [n])
          end
    end
  end.


Definition total_imports (f : fs) : nat :=
  fold_right (fun '(_, d) acc => match d with DirOk _ i => length i + acc | DirBad => acc end)%nat O f.

(** [entry] is the root directory's package (entry file + siblings) *)
Definition discover (main_pkg : N) (f : fs) (entry_declared : N) (entry_imports : list N) : result (list N) :=
  if negb (entry_declared =? main_pkg) then Err ERootName
  else discover_loop (2 + length entry_imports + total_imports f) f (rev (isort entry_imports))
                     [main_pkg] [main_pkg].

(* ------------------------------------------------------------------ *)
(** topo_sort_packages on the discovered graph: names sorted, DFS with temp/perm
    marks, dependencies visited in sorted order, post-order output *)

Inductive terr := TCycle (n : N) | TMissing (n : N) | TFuel.
Inductive tres (A : Type) := TOk (a : A) | TErr (e : terr).
Arguments TOk {A}. Arguments TErr {A}.

Definition graph := list (N * list N).     (* loaded package -> its imports (arbitrary order) *)

Fixpoint g_get (g : graph) (n : N) : option (list N) :=
  match g with [] => None | (k, d) :: r => if k =? n then Some d else g_get r n end.

Fixpoint visit (fuel : nat) (g : graph) (n : N) (temp : list N) (st : list N * list N)
  : tres (list N * list N) :=
  let '(perm, order) := st in
  match fuel with
  | O => TErr TFuel
  | S fuel =>
    if mem n perm then TOk st
    else if mem n temp then TErr (TCycle n)
    else
      match g_get g n with
      | None => TErr (TMissing n)
      | Some imports =>
          let after :=
            (fix go (ds : list N) (st : list N * list N) : tres (list N * list N) :=
               match ds with
               | [] => TOk st
               | d :: r =>
                   match g_get g d with
                   | None => TErr (TMissing d)
                   | Some _ =>
                       match visit fuel g d (n :: temp) st with
                       | TOk st' => go r st'
                       | TErr e => TErr e
                       end
                   end
               end) (isort imports) st in
          match after with
          | TOk (perm', order') => TOk (n :: perm', order' ++ [n])
          | TErr e => TErr e
          end
      end
  end.

Fixpoint topo_roots (fuel : nat) (g : graph) (names : list N) (st : list N * list N)
  : tres (list N * list N) :=
  match names with
  | [] => TOk st
  | n :: r =>
      if mem n (fst st) then topo_roots fuel g r st
      else match visit fuel g n [] st with
           | TOk st' => topo_roots fuel g r st'
           | TErr e => TErr e
           end
  end.

Definition topo (g : graph) : tres (list N) :=
  match topo_roots (S (length g)) g (isort (map fst g)) ([], []) with
  | TOk (_, order) => TOk order
  | TErr e => TErr e
  end.

(** the graph discovery hands to the sort *)
Definition graph_of (main_pkg : N) (f : fs) (entry_imports : list N) (order : list N) : graph :=
  map (fun n => (n, if n =? main_pkg then entry_imports
                    else match fs_get f n with Some (DirOk _ i) => i | _ => [] end)) order.

(** "the same project, with every HashSet iterated in another order" *)
Definition dir_sim (a b : dir) : Prop :=
  match a, b with
  | DirOk d i, DirOk d' i' => d = d' /\ Permutation i i'
  | DirBad, DirBad => True
  | _, _ => False
  end.
Definition fs_sim (f f' : fs) : Prop :=
  Forall2 (fun a b => fst a = fst b /\ dir_sim (snd a) (snd b)) f f'.
Definition graph_sim (g g' : graph) : Prop :=
  Forall2 (fun a b => fst a = fst b /\ Permutation (snd a) (snd b)) g g'.
