(** C03 — a typed mirror of the Core / Mono / Lift / ANF trees (every node carries the type
    the compiler put on it) and an executable consistency checker: every variable use is in
    scope of a binder (or names a top-level function) of the same type, lets, calls, branches,
    loops, tuples, projections, closures and operators agree with the types of their parts,
    and after monomorphisation no type parameter, inference variable or generic application
    remains. *)
From Goml Require Import Common.Base.
Open Scope N_scope.

Inductive ty :=
| TUnit | TBool | TString
| TInt (code : N)            (* 8,16,32,64 signed; 108,116,132,164 unsigned *)
| TFloat (bits : N)
| TTuple (items : list ty)
| TNamed (name : str)        (* struct or enum *)
| TApp (head : ty) (args : list ty)
| TArray (len : N) (elem : ty)
| TVec (elem : ty)
| TRef (elem : ty)
| TFunc (params : list ty) (ret : ty)
| TParam (name : str)
| TVar (id : N)
| TDyn (trait : str).

(** tast::ARRAY_WILDCARD_LEN (usize::MAX): the length in the signatures of array_get/array_set, equal to every length *)
Definition WILD : N := 18446744073709551615.

Fixpoint ty_eqb (a b : ty) {struct a} : bool :=
  let fix list_eq (x y : list ty) : bool :=
    match x, y with
    | [], [] => true
    | p :: x', q :: y' => ty_eqb p q && list_eq x' y'
    | _, _ => false
    end in
  match a, b with
  | TUnit, TUnit | TBool, TBool | TString, TString => true
  | TInt x, TInt y => (x =? y)
  | TFloat x, TFloat y => (x =? y)
  | TTuple x, TTuple y => list_eq x y
  | TNamed x, TNamed y => list_eqb x y
  | TApp h x, TApp g y => ty_eqb h g && list_eq x y
  | TArray n x, TArray m y => ((n =? m) || (n =? WILD) || (m =? WILD)) && ty_eqb x y
  | TVec x, TVec y => ty_eqb x y
  | TRef x, TRef y => ty_eqb x y
  | TFunc p r, TFunc q s => list_eq p q && ty_eqb r s
  | TParam x, TParam y => list_eqb x y
  | TVar x, TVar y => (x =? y)
  | TDyn x, TDyn y => list_eqb x y
  | _, _ => false
  end.

Fixpoint tys_eqb (x y : list ty) : bool :=
  match x, y with
  | [], [] => true
  | p :: x', q :: y' => ty_eqb p q && tys_eqb x' y'
  | _, _ => false
  end.

(** no residue of generics: no parameter, no inference variable, no type application *)
Fixpoint mono_ty (t : ty) : bool :=
  match t with
  | TParam _ | TVar _ | TApp _ _ => false
  | TTuple l => forallb mono_ty l
  | TArray _ e | TVec e | TRef e => mono_ty e
  | TFunc p r => forallb mono_ty p && mono_ty r
  | _ => true
  end.

(** one-way matching of a generic signature against its use: type parameters bind consistently *)
Fixpoint assoc_ty (s : list (str * ty)) (k : str) : option ty :=
  match s with [] => None | (k', v) :: r => if list_eqb k k' then Some v else assoc_ty r k end.

Fixpoint inst (fuel : nat) (template actual : ty) (s : list (str * ty)) {struct fuel} : option (list (str * ty)) :=
  match fuel with
  | O => None
  | S fuel =>
      let fix inst_list (x y : list ty) (s : list (str * ty)) : option (list (str * ty)) :=
        match x, y with
        | [], [] => Some s
        | p :: x', q :: y' => match inst fuel p q s with Some s' => inst_list x' y' s' | None => None end
        | _, _ => None
        end in
      match template, actual with
      | TParam n, a => match assoc_ty s n with
                       | Some b => if ty_eqb a b then Some s else None
                       | None => Some ((n, a) :: s)
                       end
      | TTuple x, TTuple y => inst_list x y s
      | TApp h x, TApp g y => match inst fuel h g s with Some s' => inst_list x y s' | None => None end
      | TArray n x, TArray m y => if (n =? m) || (n =? WILD) || (m =? WILD) then inst fuel x y s else None
      | TVec x, TVec y => inst fuel x y s
      | TRef x, TRef y => inst fuel x y s
      | TFunc p r, TFunc q u => match inst_list p q s with Some s' => inst fuel r u s' | None => None end
      | a, b => if ty_eqb a b then Some s else None
      end
  end.

Inductive unop := UNeg | UNot.
Inductive binop := BArith (* + - * / *) | BCmp (* < > <= >= *) | BEq (* == != *) | BLogic (* && || *).

Inductive tx :=
| XVar (x : str) (t : ty)
| XPrim (t : ty)
| XConstr (arity_ok : bool) (args : list tx) (t : ty)
| XTuple (items : list tx) (t : ty)
| XArray (items : list tx) (t : ty)
| XClosure (params : list (str * ty)) (body : tx) (t : ty)
| XLet (x : str) (v body : tx) (t : ty)
| XMatch (scrut : tx) (arms : list tx) (default : option tx) (t : ty)
| XIf (c a b : tx) (t : ty)
| XWhile (c b : tx) (t : ty)
| XGo (e : tx) (t : ty)
| XGet (e : tx) (t : ty)                         (* field of a constructor *)
| XUn (op : unop) (e : tx) (t : ty)
| XBin (op : binop) (l r : tx) (t : ty)
| XCall (f : tx) (args : list tx) (t : ty)
| XToDyn (trait : str) (for_ty : ty) (e : tx) (t : ty)
| XDynCall (trait : str) (recv : tx) (args : list tx) (t : ty)
| XTraitCall (recv : tx) (args : list tx) (t : ty)
| XProj (e : tx) (i : N) (t : ty).

(** the type of a node; for a let it is the type of its body: the annotation the compiler keeps on a
    let node of Core/Mono/Lift is the type of the bound value (the let "statement"), see [check] *)
Fixpoint ty_of (e : tx) : ty :=
  match e with
  | XLet _ _ body _ => ty_of body
  | XVar _ t | XPrim t | XConstr _ _ t | XTuple _ t | XArray _ t | XClosure _ _ t
  | XMatch _ _ _ t | XIf _ _ _ t | XWhile _ _ t | XGo _ t | XGet _ t | XUn _ _ t | XBin _ _ _ t
  | XCall _ _ t | XToDyn _ _ _ t | XDynCall _ _ _ t | XTraitCall _ _ t | XProj _ _ t => t
  end.

(** a top-level function: name, type parameters, type *)
Record gfn := { g_name : str; g_generics : list str; g_ty : ty }.

Fixpoint find_g (gs : list gfn) (x : str) : option gfn :=
  match gs with [] => None | g :: r => if list_eqb (g_name g) x then Some g else find_g r x end.

Fixpoint lookup (env : list (str * ty)) (x : str) : option ty :=
  match env with [] => None | (y, t) :: r => if list_eqb x y then Some t else lookup r x end.

Definition is_num (t : ty) : bool := match t with TInt _ | TFloat _ => true | _ => false end.
Definition is_ord (t : ty) : bool := match t with TInt _ | TFloat _ | TString => true | _ => false end.

(** error codes: 0 ok; 1 unbound variable; 2 variable type differs from its binder; 3 let; 4 if; 5 while;
    6 call; 7 tuple/projection/array; 8 closure; 9 operator; 10 match; 11 residue of generics; 12 constructor arity;
    13 use of a top-level function at a type that is no instance of its signature; 14 dyn *)
Section Check.
Variable gs : list gfn.
Variable externs : list str.   (* builtin and extern function names *)
Variable post_mono : bool.

(** a finding: error code and the name nearest to it (variable, callee) *)
Definition err := option (N * str).
Definition ok : err := None.
Definition bad (c : N) (w : str) : err := Some (c, w).
Definition first_err (a b : err) : err := match a with None => b | _ => a end.
Definition head_name (e : tx) : str := match e with XVar x _ => x | XCall (XVar x _) _ _ => x | _ => [] end.

Definition res_ty (t : ty) (w : str) : err := if post_mono && negb (mono_ty t) then bad 11 w else ok.

Fixpoint check (env : list (str * ty)) (e : tx) {struct e} : err :=
  let fix check_list (l : list tx) : err :=
    match l with [] => ok | x :: r => first_err (check env x) (check_list r) end in
  first_err (res_ty (match e with XLet _ _ _ t => t | _ => ty_of e end) (head_name e))
  match e with
  | XVar x t =>
      match lookup env x with
      | Some t' => if ty_eqb t t' then ok else bad 2 x
      | None =>
          match find_g gs x with
          | Some g =>
              match g_generics g with
              | [] => if ty_eqb t (g_ty g) then ok else bad 13 x
              | _ => match inst 64 (g_ty g) t [] with Some _ => ok | None => bad 13 x end
              end
          | None => if existsb (list_eqb x) externs then ok else bad 1 x
          end
      end
  | XPrim _ => ok
  | XConstr good args _ => first_err (if good then ok else bad 12 []) (check_list args)
  | XTuple items t =>
      first_err (check_list items) (if ty_eqb t (TTuple (map ty_of items)) then ok else bad 7 [])
  | XArray items t =>
      first_err (check_list items)
        (match t with
         | TArray n el => if ((N.of_nat (length items) =? n) || (n =? WILD)) && forallb (fun x => ty_eqb (ty_of x) el) items then ok else bad 7 []
         | _ => bad 7 []
         end)
  | XClosure params body t =>
      first_err (check (params ++ env) body)
        (if ty_eqb t (TFunc (map snd params) (ty_of body)) then ok else bad 8 [])
  | XLet x v body t =>
      first_err (check env v)
        (check ((x, ty_of v) :: env) body)
  | XMatch scrut arms default t =>
      first_err (check env scrut)
        (first_err (check_list arms)
           (first_err (match default with Some d => check env d | None => ok end)
              (if forallb (fun a => ty_eqb (ty_of a) t) arms && match default with Some d => ty_eqb (ty_of d) t | None => true end then ok else bad 10 (head_name scrut))))
  | XIf c a b t =>
      first_err (check env c) (first_err (check env a) (first_err (check env b)
        (if ty_eqb (ty_of c) TBool && ty_eqb (ty_of a) t && ty_eqb (ty_of b) t then ok else bad 4 (head_name c))))
  | XWhile c b t =>
      first_err (check env c) (first_err (check env b)
        (if ty_eqb (ty_of c) TBool && ty_eqb t TUnit then ok else bad 5 (head_name c)))
  | XGo x _ => check env x
  | XGet x _ => check env x
  | XUn op x t =>
      first_err (check env x)
        (match op with
         | UNeg => if is_num t && ty_eqb (ty_of x) t then ok else bad 9 (head_name x)
         | UNot => if ty_eqb t TBool && ty_eqb (ty_of x) TBool then ok else bad 9 (head_name x)
         end)
  | XBin op l r t =>
      first_err (check env l) (first_err (check env r)
        (if negb (ty_eqb (ty_of l) (ty_of r)) then bad 9 (head_name l) else
         match op with
         | BArith => if ty_eqb t (ty_of l) && (is_num t || ty_eqb t TString) then ok else bad 9 (head_name l)
         | BCmp => if ty_eqb t TBool && is_ord (ty_of l) then ok else bad 9 (head_name l)
         | BEq => if ty_eqb t TBool then ok else bad 9 (head_name l)
         | BLogic => if ty_eqb t TBool && ty_eqb (ty_of l) TBool then ok else bad 9 (head_name l)
         end))
  | XCall f args t =>
      first_err (check env f) (first_err (check_list args)
        (match ty_of f with
         | TFunc ps r => if tys_eqb ps (map ty_of args) && ty_eqb r t then ok else bad 6 (head_name f)
         | _ => bad 6 (head_name f)
         end))
  | XToDyn trait for_ty x t =>
      first_err (check env x) (if ty_eqb t (TDyn trait) && ty_eqb (ty_of x) for_ty then ok else bad 14 trait)
  | XDynCall trait recv args _ =>
      first_err (check env recv) (first_err (check_list args) (if ty_eqb (ty_of recv) (TDyn trait) then ok else bad 14 trait))
  | XTraitCall recv args _ => first_err (check env recv) (check_list args)
  | XProj x i t =>
      first_err (check env x)
        (match ty_of x with
         | TTuple l => match nth_error l (N.to_nat i) with Some u => if ty_eqb u t then ok else bad 7 (head_name x) | None => bad 7 (head_name x) end
         | _ => bad 7 (head_name x)
         end)
  end.

End Check.

Record tfn := { t_name : str; t_generics : list str; t_params : list (str * ty); t_ret : ty; t_body : tx }.

Definition sig_of (f : tfn) : gfn :=
  {| g_name := t_name f; g_generics := t_generics f; g_ty := TFunc (map snd (t_params f)) (t_ret f) |}.

(** check of one function: body under its parameters, result type = declared return type (15), signature residue *)
Definition check_fn (gs : list gfn) (externs : list str) (post_mono : bool) (f : tfn) : err :=
  first_err (check gs externs post_mono (t_params f) (t_body f))
    (first_err (if ty_eqb (ty_of (t_body f)) (t_ret f) then ok else bad 15 (t_name f))
       (if post_mono && negb (forallb mono_ty (t_ret f :: map snd (t_params f))) then bad 11 (t_name f) else ok)).

(** one entry per function: 0 or the error code; and the findings with their names *)
Definition check_file (externs : list str) (post_mono : bool) (fs : list tfn) : list N :=
  let gs := map sig_of fs in map (fun f => match check_fn gs externs post_mono f with None => 0 | Some (c, _) => c end) fs.
Definition explain_file (externs : list str) (post_mono : bool) (fs : list tfn) : list (str * N * str) :=
  let gs := map sig_of fs in
  flat_map (fun f => match check_fn gs externs post_mono f with None => [] | Some (c, w) => [(t_name f, c, w)] end) fs.

(** free variables that are neither bound nor top-level functions nor listed externs (closedness) *)
Fixpoint unbound (gs : list gfn) (externs : list str) (env : list str) (e : tx) {struct e} : list str :=
  let fix go_list (l : list tx) : list str :=
    match l with [] => [] | x :: r => unbound gs externs env x ++ go_list r end in
  match e with
  | XVar x _ =>
      if existsb (list_eqb x) env then []
      else match find_g gs x with Some _ => [] | None => if existsb (list_eqb x) externs then [] else [x] end
  | XPrim _ => []
  | XConstr _ args _ | XTuple args _ | XArray args _ => go_list args
  | XClosure params body _ => unbound gs externs (map fst params ++ env) body
  | XLet x v body _ => unbound gs externs env v ++ unbound gs externs (x :: env) body
  | XMatch s arms d _ => unbound gs externs env s ++ go_list arms ++ match d with Some x => unbound gs externs env x | None => [] end
  | XIf c a b _ => unbound gs externs env c ++ unbound gs externs env a ++ unbound gs externs env b
  | XWhile c b _ => unbound gs externs env c ++ unbound gs externs env b
  | XGo x _ | XGet x _ | XUn _ x _ | XProj x _ _ | XToDyn _ _ x _ => unbound gs externs env x
  | XBin _ l r _ => unbound gs externs env l ++ unbound gs externs env r
  | XCall f args _ => unbound gs externs env f ++ go_list args
  | XDynCall _ r args _ | XTraitCall r args _ => unbound gs externs env r ++ go_list args
  end.
