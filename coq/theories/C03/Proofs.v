(** C03 — soundness of the executable checker with respect to closedness and residue-freedom *)
From Goml Require Import Common.Base C03.Typed.
Open Scope N_scope.

(** induction principle through the argument lists *)
Section TxInd.
Variable P : tx -> Prop.
Hypothesis HVar : forall x t, P (XVar x t).
Hypothesis HPrim : forall t, P (XPrim t).
Hypothesis HConstr : forall g args t, Forall P args -> P (XConstr g args t).
Hypothesis HTuple : forall items t, Forall P items -> P (XTuple items t).
Hypothesis HArray : forall items t, Forall P items -> P (XArray items t).
Hypothesis HClosure : forall ps b t, P b -> P (XClosure ps b t).
Hypothesis HLet : forall x v b t, P v -> P b -> P (XLet x v b t).
Hypothesis HMatch : forall s arms d t, P s -> Forall P arms -> (forall x, d = Some x -> P x) -> P (XMatch s arms d t).
Hypothesis HIf : forall c a b t, P c -> P a -> P b -> P (XIf c a b t).
Hypothesis HWhile : forall c b t, P c -> P b -> P (XWhile c b t).
Hypothesis HGo : forall e t, P e -> P (XGo e t).
Hypothesis HGet : forall e t, P e -> P (XGet e t).
Hypothesis HUn : forall o e t, P e -> P (XUn o e t).
Hypothesis HBin : forall o l r t, P l -> P r -> P (XBin o l r t).
Hypothesis HCall : forall f args t, P f -> Forall P args -> P (XCall f args t).
Hypothesis HToDyn : forall tr ft e t, P e -> P (XToDyn tr ft e t).
Hypothesis HDynCall : forall tr r args t, P r -> Forall P args -> P (XDynCall tr r args t).
Hypothesis HTraitCall : forall r args t, P r -> Forall P args -> P (XTraitCall r args t).
Hypothesis HProj : forall e i t, P e -> P (XProj e i t).

Fixpoint tx_ind' (e : tx) : P e :=
  let fix all (l : list tx) : Forall P l :=
    match l with [] => Forall_nil P | x :: r => Forall_cons x (tx_ind' x) (all r) end in
  match e with
  | XVar x t => HVar x t
  | XPrim t => HPrim t
  | XConstr g a t => HConstr g a t (all a)
  | XTuple a t => HTuple a t (all a)
  | XArray a t => HArray a t (all a)
  | XClosure ps b t => HClosure ps b t (tx_ind' b)
  | XLet x v b t => HLet x v b t (tx_ind' v) (tx_ind' b)
  | XMatch s arms d t =>
      HMatch s arms d t (tx_ind' s) (all arms)
        (match d as d0 return (forall x, d0 = Some x -> P x) with
         | Some y => fun x H => match H in (_ = z) return (match z with Some w => P w | None => True end) with eq_refl => tx_ind' y end
         | None => fun x H => match H in (_ = z) return (match z with Some w => P w | None => True end) with eq_refl => I end
         end)
  | XIf c a b t => HIf c a b t (tx_ind' c) (tx_ind' a) (tx_ind' b)
  | XWhile c b t => HWhile c b t (tx_ind' c) (tx_ind' b)
  | XGo x t => HGo x t (tx_ind' x)
  | XGet x t => HGet x t (tx_ind' x)
  | XUn o x t => HUn o x t (tx_ind' x)
  | XBin o l r t => HBin o l r t (tx_ind' l) (tx_ind' r)
  | XCall f a t => HCall f a t (tx_ind' f) (all a)
  | XToDyn tr ft x t => HToDyn tr ft x t (tx_ind' x)
  | XDynCall tr r a t => HDynCall tr r a t (tx_ind' r) (all a)
  | XTraitCall r a t => HTraitCall r a t (tx_ind' r) (all a)
  | XProj x i t => HProj x i t (tx_ind' x)
  end.
End TxInd.

Lemma first_err_none a b : first_err a b = None -> a = None /\ b = None.
Proof. destruct a; cbn; intros H; [discriminate|auto]. Qed.

Lemma lookup_some_existsb env x t : lookup env x = Some t -> existsb (list_eqb x) (map fst env) = true.
Proof.
  induction env as [|[y u] r IH]; cbn; [discriminate|].
  destruct (list_eqb x y); cbn; auto.
Qed.

Lemma lookup_none_existsb env x : lookup env x = None -> existsb (list_eqb x) (map fst env) = false.
Proof.
  induction env as [|[y u] r IH]; cbn; [reflexivity|].
  destruct (list_eqb x y); cbn; [discriminate|auto].
Qed.

Ltac fe H H1 H2 := apply first_err_none in H; destruct H as [H1 H2].

Section Sound.
Variable gs : list gfn.
Variable externs : list str.
Variable pm : bool.

Definition closed_at (e : tx) : Prop :=
  forall env, check gs externs pm env e = None -> unbound gs externs (map fst env) e = [].

Lemma list_case (l : list tx) (env : list (str * ty)) :
  Forall closed_at l ->
  (fix check_list (l : list tx) : err :=
     match l with [] => ok | x :: r => first_err (check gs externs pm env x) (check_list r) end) l = None ->
  (fix go_list (l : list tx) : list str :=
     match l with [] => [] | x :: r => unbound gs externs (map fst env) x ++ go_list r end) l = [].
Proof.
  induction 1 as [|x r Hx Hr IH]; intros H; [reflexivity|].
  apply first_err_none in H. destruct H as [H1 H2].
  rewrite (Hx env H1), (IH H2). reflexivity.
Qed.

Ltac split_err H :=
  repeat match type of H with
         | first_err _ _ = None => let H1 := fresh "E" in let H2 := fresh "E" in apply first_err_none in H; destruct H as [H1 H2]; try split_err H1; try split_err H2
         end.

Ltac use_list :=
  match goal with
  | Hf : Forall closed_at ?l, Hl : _ ?l = None |- _ => rewrite (list_case _ _ Hf Hl)
  end.

Theorem check_closed : forall e, closed_at e.
Proof.
  induction e using tx_ind'; unfold closed_at in *; intros env Hc; cbn [check] in Hc;
    apply first_err_none in Hc; destruct Hc as [_ Hc].
  - (* var *) cbn [unbound].
    destruct (lookup env x) eqn:L.
    + rewrite (lookup_some_existsb _ _ _ L). reflexivity.
    + rewrite (lookup_none_existsb _ _ L).
      destruct (find_g gs x); [reflexivity|].
      destruct (existsb (list_eqb x) externs); [reflexivity|discriminate].
  - reflexivity.
  - fe Hc A B. cbn [unbound]. fold closed_at in *. use_list. reflexivity.
  - fe Hc A B. cbn [unbound]. fold closed_at in *. use_list. reflexivity.
  - fe Hc A B. cbn [unbound]. fold closed_at in *. use_list. reflexivity.
  - fe Hc A B. cbn [unbound].
    specialize (IHe (ps ++ env) A). rewrite map_app in IHe. exact IHe.
  - fe Hc A B. cbn [unbound].
    rewrite (IHe1 env A). specialize (IHe2 ((x, ty_of e1) :: env) B). cbn in IHe2. rewrite IHe2. reflexivity.
  - fe Hc A B. fe B B1 B2. fe B2 C1 C2. cbn [unbound]. fold closed_at in *.
    rewrite (IHe env A). use_list.
    destruct d as [y|].
    + match goal with Hd : forall x, Some y = Some x -> _ |- _ => rewrite (Hd y eq_refl env C1) end. reflexivity.
    + reflexivity.
  - fe Hc A B. fe B B1 B2. fe B2 C1 C2. cbn [unbound].
    rewrite (IHe1 env A), (IHe2 env B1), (IHe3 env C1). reflexivity.
  - fe Hc A B. fe B B1 B2. cbn [unbound].
    rewrite (IHe1 env A), (IHe2 env B1). reflexivity.
  - cbn [unbound]. auto.
  - cbn [unbound]. auto.
  - fe Hc A B. cbn [unbound]. auto.
  - fe Hc A B. fe B B1 B2. cbn [unbound].
    rewrite (IHe1 env A), (IHe2 env B1). reflexivity.
  - fe Hc A B. fe B B1 B2. cbn [unbound]. fold closed_at in *.
    rewrite (IHe env A). use_list. reflexivity.
  - fe Hc A B. cbn [unbound]. auto.
  - fe Hc A B. fe B B1 B2. cbn [unbound]. fold closed_at in *.
    rewrite (IHe env A). use_list. reflexivity.
  - fe Hc A B. cbn [unbound]. fold closed_at in *.
    rewrite (IHe env A). use_list. reflexivity.
  - fe Hc A B. cbn [unbound]. auto.
Qed.

End Sound.

(** every type annotation of the tree *)
Fixpoint node_types (e : tx) : list ty :=
  let fix go (l : list tx) : list ty := match l with [] => [] | x :: r => node_types x ++ go r end in
  match e with
  | XVar _ t | XPrim t => [t]
  | XConstr _ a t | XTuple a t | XArray a t => t :: go a
  | XClosure _ b t => t :: node_types b
  | XLet _ v b t => t :: node_types v ++ node_types b
  | XMatch s arms d t => t :: node_types s ++ go arms ++ match d with Some x => node_types x | None => [] end
  | XIf c a b t => t :: node_types c ++ node_types a ++ node_types b
  | XWhile c b t => t :: node_types c ++ node_types b
  | XGo x t | XGet x t | XUn _ x t | XProj x _ t | XToDyn _ _ x t => t :: node_types x
  | XBin _ l r t => t :: node_types l ++ node_types r
  | XCall f a t => t :: node_types f ++ go a
  | XDynCall _ r a t | XTraitCall r a t => t :: node_types r ++ go a
  end.

Section Residue.
Variable gs : list gfn.
Variable externs : list str.

Definition mono_at (e : tx) : Prop :=
  forall env, check gs externs true env e = None -> forallb mono_ty (node_types e) = true.

Lemma res_ty_none t w : res_ty true t w = None -> mono_ty t = true.
Proof. unfold res_ty; cbn. destruct (mono_ty t); cbn; [reflexivity|discriminate]. Qed.

Lemma list_case_m (l : list tx) (env : list (str * ty)) :
  Forall mono_at l ->
  (fix check_list (l : list tx) : err :=
     match l with [] => ok | x :: r => first_err (check gs externs true env x) (check_list r) end) l = None ->
  forallb mono_ty ((fix go (l : list tx) : list ty := match l with [] => [] | x :: r => node_types x ++ go r end) l) = true.
Proof.
  induction 1 as [|x r Hx Hr IH]; intros H; [reflexivity|].
  apply first_err_none in H. destruct H as [H1 H2].
  rewrite forallb_app, (Hx env H1), (IH H2). reflexivity.
Qed.

Ltac use_list_m :=
  match goal with
  | Hf : Forall mono_at ?l, Hl : _ ?l = None |- _ => rewrite (list_case_m _ _ Hf Hl)
  end.

Theorem check_no_residue : forall e, mono_at e.
Proof.
  induction e using tx_ind'; unfold mono_at in *; intros env Hc; cbn [check] in Hc;
    apply first_err_none in Hc; destruct Hc as [R Hc]; apply res_ty_none in R;
    cbn [node_types forallb]; cbn [ty_of] in R; rewrite ?forallb_app; fold mono_at in *.
  - rewrite R. reflexivity.
  - rewrite R. reflexivity.
  - fe Hc A B. rewrite R. use_list_m. reflexivity.
  - fe Hc A B. rewrite R. use_list_m. reflexivity.
  - fe Hc A B. rewrite R. use_list_m. reflexivity.
  - fe Hc A B. rewrite R, (IHe _ A). reflexivity.
  - fe Hc A B. rewrite R, (IHe1 _ A), (IHe2 _ B). reflexivity.
  - fe Hc A B. fe B B1 B2. fe B2 C1 C2. rewrite R, (IHe _ A). use_list_m.
    destruct d as [y|]; cbn.
    + match goal with Hd : forall x, Some y = Some x -> _ |- _ => rewrite (Hd y eq_refl env C1) end. reflexivity.
    + reflexivity.
  - fe Hc A B. fe B B1 B2. fe B2 C1 C2. rewrite R, (IHe1 _ A), (IHe2 _ B1), (IHe3 _ C1). reflexivity.
  - fe Hc A B. fe B B1 B2. rewrite R, (IHe1 _ A), (IHe2 _ B1). reflexivity.
  - rewrite R, (IHe _ Hc). reflexivity.
  - rewrite R, (IHe _ Hc). reflexivity.
  - fe Hc A B. rewrite R, (IHe _ A). reflexivity.
  - fe Hc A B. fe B B1 B2. rewrite R, (IHe1 _ A), (IHe2 _ B1). reflexivity.
  - fe Hc A B. fe B B1 B2. rewrite R, (IHe _ A). use_list_m. reflexivity.
  - fe Hc A B. rewrite R, (IHe _ A). reflexivity.
  - fe Hc A B. fe B B1 B2. rewrite R, (IHe _ A). use_list_m. reflexivity.
  - fe Hc A B. rewrite R, (IHe _ A). use_list_m. reflexivity.
  - fe Hc A B. rewrite R, (IHe _ A). reflexivity.
Qed.

End Residue.

