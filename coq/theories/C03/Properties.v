(** C03 — pinned theorems about the executable type-consistency checker *)
From Goml Require Import Common.Base C03.Typed C03.Proofs.
Open Scope N_scope.

(** whatever the checker accepts is closed: every variable is bound by an enclosing binder or
    parameter, names a top-level function, or is a listed builtin/extern *)
Theorem accepted_trees_are_closed :
  forall gs externs post_mono env e,
    check gs externs post_mono env e = None -> unbound gs externs (map fst env) e = [].
Proof. intros gs externs pm env e. exact (check_closed gs externs pm e env). Qed.
Print Assumptions accepted_trees_are_closed.

(** whatever the checker accepts after monomorphisation carries no type parameter, inference
    variable or generic application on any node *)
Theorem accepted_mono_trees_have_no_residue :
  forall gs externs env e,
    check gs externs true env e = None -> forallb mono_ty (node_types e) = true.
Proof. intros gs externs env e. exact (check_no_residue gs externs e env). Qed.
Print Assumptions accepted_mono_trees_have_no_residue.

(** non-vacuity: a let, a call of a builtin and an operator pass; a free variable and a residue do not *)
Definition ex_good : tx :=
  XLet [120] (XBin BArith (XPrim (TInt 32)) (XPrim (TInt 32)) (TInt 32))
    (XCall (XVar [102] (TFunc [TInt 32] TString)) [XVar [120] (TInt 32)] TString) (TInt 32).
Example good_passes : check [] [[102]] true [] ex_good = None.
Proof. reflexivity. Qed.
Example free_variable_rejected : exists c, check [] [[102]] true [] (XVar [121] (TInt 32)) = Some (1, c).
Proof. eexists. reflexivity. Qed.
Example residue_rejected : exists c, check [] [] true [] (XPrim (TParam [84])) = Some (11, c).
Proof. eexists. reflexivity. Qed.
