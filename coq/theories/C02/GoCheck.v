(** C02 — a checker for the Go subset the backend emits (Sem/GoAst.v): every identifier is declared
    (once per block scope, before use), every expression, assignment, call, return and composite
    literal agrees with Go's typing rules for this subset, every local variable is read and every
    import is used.  It returns the list of findings; [] means Go accepts the program as far as
    these rules go. *)
From Goml Require Import Common.Base Sem.GoAst Sem.GoConst.
Open Scope N_scope.

Fixpoint gty_eqb (a b : gty) {struct a} : bool :=
  let fix fields_eq (x y : list (str * gty)) : bool :=
    match x, y with
    | [], [] => true
    | (n, t) :: x', (m, u) :: y' => list_eqb n m && gty_eqb t u && fields_eq x' y'
    | _, _ => false
    end in
  let fix list_eq (x y : list gty) : bool :=
    match x, y with
    | [], [] => true
    | p :: x', q :: y' => gty_eqb p q && list_eq x' y'
    | _, _ => false
    end in
  match a, b with
  | GVoid, GVoid | GUnit, GUnit | GBool, GBool | GInt8, GInt8 | GInt16, GInt16 | GInt32, GInt32 | GInt64, GInt64
  | GUint8, GUint8 | GUint16, GUint16 | GUint32, GUint32 | GUint64, GUint64 | GFloat32, GFloat32 | GFloat64, GFloat64
  | GString, GString => true
  | GStruct n f, GStruct m g => list_eqb n m && fields_eq f g
  | GPointer x, GPointer y => gty_eqb x y
  | GFunc p r, GFunc q s => list_eq p q && gty_eqb r s
  | GName x, GName y => list_eqb x y
  | GArray n x, GArray m y => (n =? m) && gty_eqb x y
  | GSlice x, GSlice y => gty_eqb x y
  | _, _ => false
  end.

Fixpoint gtys_eqb (x y : list gty) : bool :=
  match x, y with
  | [], [] => true
  | p :: x', q :: y' => gty_eqb p q && gtys_eqb x' y'
  | _, _ => false
  end.

Definition type_of (e : expr) : gty :=
  match e with
  | ENil t | EVoid t | EUnit t | EVar _ t | EBool _ t | EInt _ t | EFloat _ t | EString _ t | ECall _ _ t
  | EUnary _ _ t | EBinary _ _ _ t | EField _ _ t | EIndex _ _ t | ECast _ t | EStructLit _ t | EArrayLit _ t
  | EBlock _ _ t => t
  end.

(** declarations of the file *)
Record genv := {
  g_fns : list (str * (list gty * option gty));
  g_structs : list (str * list (str * gty));
  g_methods : list (str * list str);            (* struct -> methods declared on it *)
  g_ifaces : list (str * list str);
  g_aliases : list (str * gty);
  g_imports : list str
}.

Fixpoint assoc {A} (l : list (str * A)) (k : str) : option A :=
  match l with [] => None | (k', v) :: r => if list_eqb k k' then Some v else assoc r k end.

Definition s_any : str := [97; 110; 121].

Definition name_of_ty (t : gty) : option str := match t with GName n | GStruct n _ => Some n | _ => None end.

Definition is_iface (g : genv) (t : gty) : bool :=
  match t with GName n => list_eqb n s_any || match assoc (g_ifaces g) n with Some _ => true | None => false end | _ => false end.

Definition implements (g : genv) (from : gty) (iface : str) : bool :=
  if list_eqb iface s_any then true else
  match assoc (g_ifaces g) iface, name_of_ty from with
  | Some ms, Some n =>
      let have := match assoc (g_methods g) n with Some l => l | None => [] end in
      forallb (fun m => existsb (list_eqb m) have) ms
  | Some [], None => true
  | _, _ => false
  end.

(** struct type names are nominal: GName n and GStruct n _ name the same declared type *)
Definition same_ty (a b : gty) : bool :=
  gty_eqb a b ||
  match name_of_ty a, name_of_ty b with Some x, Some y => list_eqb x y | _, _ => false end.

Definition is_int (t : gty) : bool :=
  match t with GInt8 | GInt16 | GInt32 | GInt64 | GUint8 | GUint16 | GUint32 | GUint64 => true | _ => false end.
Definition is_num (t : gty) : bool := is_int t || match t with GFloat32 | GFloat64 => true | _ => false end.

(** findings: (code, name)
    1 undeclared identifier; 2 redeclared in the same scope; 3 identifier used at another type than declared;
    4 call: wrong number or types of arguments / result; 5 operator operands; 6 field; 7 index; 8 struct literal;
    9 assignment / initialiser not assignable; 10 return; 11 condition not bool; 12 local variable never read;
    13 import never used; 14 switch case type; 15 unknown type name; 16 array literal *)
Definition finding := (N * str)%type.

Definition builtin_fns : list str :=
  [ [102;109;116;46;83;112;114;105;110;116;102]; [102;109;116;46;80;114;105;110;116;108;110]; [102;109;116;46;80;114;105;110;116];
    [112;114;105;110;116;108;110]; [112;97;110;105;99]; [108;101;110]; [97;112;112;101;110;100]; [115;116;114;105;110;103]; [97;110;121] ].
Definition cast_fns : list str :=
  [ [105;110;116;56]; [105;110;116;49;54]; [105;110;116;51;50]; [105;110;116;54;52]; [117;105;110;116;56]; [117;105;110;116;49;54];
    [117;105;110;116;51;50]; [117;105;110;116;54;52]; [102;108;111;97;116;51;50]; [102;108;111;97;116;54;52]; [105;110;116] ].

Definition known_type (g : genv) (t : gty) : bool :=
  match t with
  | GName n => list_eqb n s_any
               || match assoc (g_structs g) n with Some _ => true | None => false end
               || match assoc (g_ifaces g) n with Some _ => true | None => false end
               || match assoc (g_aliases g) n with Some _ => true | None => false end
  | _ => true
  end.

Definition struct_fields (g : genv) (t : gty) : option (list (str * gty)) :=
  match t with
  | GStruct _ f => Some f
  | GName n => assoc (g_structs g) n
  | GPointer (GName n) => assoc (g_structs g) n
  | GPointer (GStruct _ f) => Some f
  | _ => None
  end.

(** names read anywhere in a statement list (an assignment target is not a read) *)
Fixpoint reads_e (fuel : nat) (e : expr) {struct fuel} : list str :=
  match fuel with
  | O => []
  | S fuel =>
  let rl := fix go (l : list expr) : list str := match l with [] => [] | x :: r => reads_e fuel x ++ go r end in
  match e with
  | EVar x _ => [x]
  | ECall f a _ => reads_e fuel f ++ rl a
  | EUnary _ x _ | ECast x _ => reads_e fuel x
  | EBinary _ l r _ | EIndex l r _ => reads_e fuel l ++ reads_e fuel r
  | EField o _ _ => reads_e fuel o
  | EStructLit fs _ => (fix go (l : list (str * expr)) : list str := match l with [] => [] | (_, x) :: r => reads_e fuel x ++ go r end) fs
  | EArrayLit es _ => rl es
  | _ => []
  end
  end.

Fixpoint reads_s (fuel : nat) (ss : list stmt) {struct fuel} : list str :=
  match fuel with
  | O => []
  | S fuel =>
  match ss with
  | [] => []
  | st :: rest =>
      (match st with
       | SExpr e | SGo e => reads_e (S fuel) e
       | SVarDecl _ _ (Some e) => reads_e (S fuel) e
       | SVarDecl _ _ None => []
       | SAssign _ v => reads_e (S fuel) v
       | SFieldAssign t v | SPointerAssign t v => reads_e (S fuel) t ++ reads_e (S fuel) v
       | SIndexAssign a i v => reads_e (S fuel) a ++ reads_e (S fuel) i ++ reads_e (S fuel) v
       | SReturn (Some e) => reads_e (S fuel) e
       | SReturn None | SBreak => []
       | SIf c th el => reads_e (S fuel) c ++ reads_s fuel th ++ match el with Some b => reads_s fuel b | None => [] end
       | SLoop b => reads_s fuel b
       | SSwitchExpr e cases d =>
           reads_e (S fuel) e ++
           (fix go (l : list (expr * list stmt)) : list str := match l with [] => [] | (c, b) :: r => reads_e (S fuel) c ++ reads_s fuel b ++ go r end) cases ++
           match d with Some b => reads_s fuel b | None => [] end
       | SSwitchType _ e cases d =>
           reads_e (S fuel) e ++
           (fix go (l : list (gty * list stmt)) : list str := match l with [] => [] | (_, b) :: r => reads_s fuel b ++ go r end) cases ++
           match d with Some b => reads_s fuel b | None => [] end
       end) ++ reads_s fuel rest
  end
  end.

Fixpoint decls_s (fuel : nat) (ss : list stmt) {struct fuel} : list str :=
  match fuel with
  | O => []
  | S fuel =>
  match ss with
  | [] => []
  | st :: rest =>
      (match st with
       | SVarDecl x _ _ => [x]
       | SIf _ th el => decls_s fuel th ++ match el with Some b => decls_s fuel b | None => [] end
       | SLoop b => decls_s fuel b
       | SSwitchExpr _ cases d =>
           (fix go (l : list (expr * list stmt)) : list str := match l with [] => [] | (_, b) :: r => decls_s fuel b ++ go r end) cases ++
           match d with Some b => decls_s fuel b | None => [] end
       | SSwitchType bind _ cases d =>
           (fix go (l : list (gty * list stmt)) : list str := match l with [] => [] | (_, b) :: r => decls_s fuel b ++ go r end) cases ++
           match d with Some b => decls_s fuel b | None => [] end
       | _ => []
       end) ++ decls_s fuel rest
  end
  end.


(** Go binds an import to the last element of its path *)
Fixpoint last_segment (p : str) : str :=
  match p with
  | [] => []
  | c :: r => if existsb (N.eqb 47) r then last_segment r else (if c =? 47 then r else p)
  end.

Fixpoint has_prefix0 (p s : str) : bool :=
  match p, s with [] , _ => true | x :: p', y :: s' => (x =? y) && has_prefix0 p' s' | _ :: _, [] => false end.

Section Chk.
Variable g : genv.

(** a name qualified by an imported package: an extern whose signature is not in the file *)
Definition is_extern (x : str) : bool := existsb (fun p => has_prefix0 (last_segment p ++ [46]) x) (g_imports g).

Definition scope := list (str * gty).

Fixpoint lookup_scopes (sc : list scope) (x : str) : option gty :=
  match sc with [] => None | s :: r => match assoc s x with Some t => Some t | None => lookup_scopes r x end end.

Definition s_int : str := [105; 110; 116].
Definition s_sprintf : str := [102;109;116;46;83;112;114;105;110;116;102].
Definition s_len : str := [108;101;110].
Definition s_append : str := [97;112;112;101;110;100].
Definition s_string : str := [115;116;114;105;110;103].

(** Go's assignability on synthesised types; [lit] says the value is an untyped constant / nil *)
Definition assignable_ty (from : gty) (is_nil is_const : bool) (to : gty) : bool :=
  same_ty from to
  || match to with GName n => is_iface g to && implements g from n | _ => false end
  || (is_nil && match to with GPointer _ | GSlice _ | GFunc _ _ => true | _ => is_iface g to end)
  || (is_const && is_num from && is_num to).

Definition is_nil_e (e : expr) : bool := match e with ENil _ => true | _ => false end.
Definition is_const_e (e : expr) : bool := match e with EInt _ _ | EFloat _ _ => true | _ => false end.

(** the type Go derives for an expression (from declarations, not from the annotations the
    backend keeps on the nodes), and the findings *)
Fixpoint synth (fuel : nat) (sc : list scope) (e : expr) {struct fuel} : gty * list finding :=
  match fuel with
  | O => (GVoid, [(99, [])])
  | S fuel =>
  let args_ok := fun (x : str) (args : list expr) (ps : list gty) =>
    let tys := map (fun a => fst (synth fuel sc a)) args in
    if (length ps =? length args)%nat
       && forallb (fun p => assignable_ty (snd (fst p)) (is_nil_e (fst (fst p))) (is_const_e (fst (fst p))) (snd p)) (combine (combine args tys) ps)
    then [] else [(4, x)] in
  let arg_findings := fix go (l : list expr) : list finding := match l with [] => [] | x :: r => snd (synth fuel sc x) ++ go r end in
  match e with
  | ENil t | EVoid t | EUnit t | EBool _ t | EInt _ t | EFloat _ t | EString _ t =>
      (t, if known_type g t then [] else [(15, [])])
  | EVar x t =>
      match lookup_scopes sc x with
      | Some t' => (t', [])
      | None =>
          match assoc (g_fns g) x with
          | Some (ps, r) => (GFunc ps (match r with Some u => u | None => GVoid end), [])
          | None => (t, if existsb (list_eqb x) builtin_fns || existsb (list_eqb x) cast_fns || is_extern x then [] else [(1, x)])
          end
      end
  | ECall f args t =>
      match f with
      | EVar x _ =>
          match lookup_scopes sc x with
          | Some (GFunc ps r) => (r, arg_findings args ++ args_ok x args ps)
          | Some _ => (t, arg_findings args ++ [(4, x)])
          | None =>
              match assoc (g_fns g) x with
              | Some (ps, r) => (match r with Some u => u | None => GVoid end, arg_findings args ++ args_ok x args ps)
              | None =>
                  if list_eqb x s_any then (GName s_any, arg_findings args ++ match args with [_] => [] | _ => [(4, x)] end)
                  else if list_eqb x s_sprintf || list_eqb x s_string then (GString, arg_findings args)
                  else if list_eqb x s_len then (GName s_int, arg_findings args)
                  else if list_eqb x s_append then (match args with a :: _ => fst (synth fuel sc a) | [] => t end, arg_findings args)
                  else if existsb (list_eqb x) builtin_fns then (GVoid, arg_findings args)
                  else match assoc (map (fun c => (c, tt)) cast_fns) x with
                       | Some _ =>
                           (t, arg_findings args ++
                               match args with [a] => if is_num (fst (synth fuel sc a)) || list_eqb (match name_of_ty (fst (synth fuel sc a)) with Some n => n | None => [] end) s_int then [] else [(4, x)] | _ => [(4, x)] end)
                       | None => (t, arg_findings args ++ if is_extern x then [] else [(1, x)])
                       end
              end
          end
      | _ =>
          let (ft, ff) := synth fuel sc f in
          match ft with
          | GFunc ps r => (r, ff ++ arg_findings args ++ args_ok [] args ps)
          | _ => (t, ff ++ arg_findings args ++ [(4, [])])
          end
      end
  | EUnary op x t =>
      let (xt, xf) := synth fuel sc x in
      match op with
      | UNeg => (xt, xf ++ if is_num xt then [] else [(5, [45])])
      | UNot => (GBool, xf ++ if gty_eqb xt GBool then [] else [(5, [33])])
      | UAddrOf => (GPointer xt, xf)
      | UDeref => match xt with GPointer u => (u, xf) | _ => (t, xf ++ [(5, [42])]) end
      end
  | EBinary op l r t =>
      let (lt, lf) := synth fuel sc l in
      let (rt, rf) := synth fuel sc r in
      let same := same_ty lt rt || (is_const_e l && is_num lt && is_num rt) || (is_const_e r && is_num lt && is_num rt) in
      let opnd := if is_const_e l then rt else lt in
      (match op with BAdd | BSub | BMul | BDiv => opnd | _ => GBool end,
       lf ++ rf ++
       (match const_violation op l r t with Some _ => [(18, [99; 111; 110; 115; 116])] | None => [] end) ++
       if same then
         match op with
         | BAdd => if is_num opnd || gty_eqb opnd GString then [] else [(5, [43])]
         | BSub | BMul | BDiv => if is_num opnd then [] else [(5, [45])]
         | BLess | BGreater | BLessEq | BGreaterEq => if is_num opnd || gty_eqb opnd GString then [] else [(5, [60])]
         | BEq | BNotEq => []
         | BAnd | BOr => if gty_eqb opnd GBool then [] else [(5, [38; 38])]
         end
       else [(5, [63])])
  | EField obj f t =>
      let (ot, off) := synth fuel sc obj in
      match struct_fields g ot with
      | Some fs => match assoc fs f with Some ft => (ft, off) | None => (t, off ++ [(6, f)]) end
      | None => (t, off ++ [(6, f)])
      end
  | EIndex a i t =>
      let (at_, af) := synth fuel sc a in
      let (it, jf) := synth fuel sc i in
      let idx_ok := is_int it || list_eqb (match name_of_ty it with Some n => n | None => [] end) s_int in
      match at_ with
      | GSlice u | GArray _ u => (u, af ++ jf ++ if idx_ok then [] else [(7, [])])
      | GString => (GUint8, af ++ jf ++ if idx_ok then [] else [(7, [])])
      | _ => (t, af ++ jf ++ [(7, [])])
      end
  | ECast x t =>
      let (xt, xf) := synth fuel sc x in
      (t, xf ++ (if known_type g t then [] else [(15, [])]) ++ if is_iface g xt then [] else [(4, [46; 40])])
  | EStructLit fs t =>
      (t,
       (fix go (l : list (str * expr)) : list finding := match l with [] => [] | (_, x) :: r => snd (synth fuel sc x) ++ go r end) fs ++
       match struct_fields g t with
       | Some decl =>
           if forallb (fun p => match assoc decl (fst p) with
                                | Some ft => assignable_ty (fst (synth fuel sc (snd p))) (is_nil_e (snd p)) (is_const_e (snd p)) ft
                                | None => false end) fs
              && (length fs <=? length decl)%nat then [] else [(8, match name_of_ty t with Some n => n | None => [] end)]
       | None => [(8, match name_of_ty t with Some n => n | None => [] end)]
       end)
  | EArrayLit es t =>
      (t, arg_findings es ++
          match t with
          | GSlice u | GArray _ u => if forallb (fun x => assignable_ty (fst (synth fuel sc x)) (is_nil_e x) (is_const_e x) u) es then [] else [(16, [])]
          | _ => [(16, [])]
          end)
  | EBlock ss oe t => (t, [(98, [])])     (* expression blocks do not occur in printed programs *)
  end
  end.

Definition assignable (sc : list scope) (e : expr) (to : gty) : bool :=
  assignable_ty (fst (synth 400 sc e)) (is_nil_e e) (is_const_e e) to.

(** statements *)
Fixpoint chk_stmts (fuel : nat) (ret : option gty) (sc : list scope) (cur : scope) (ss : list stmt) {struct fuel} : list finding :=
  match fuel with
  | O => [(99, [])]
  | S fuel =>
  match ss with
  | [] => []
  | st :: rest =>
      let env := cur :: sc in
      let E := fun e => snd (synth 400 env e) in
      let T := fun e => fst (synth 400 env e) in
      let block := fun b => chk_stmts fuel ret env [] b in
      match st with
      | SVarDecl x t v =>
          (if known_type g t then [] else [(15, x)]) ++
          (match assoc cur x with Some _ => [(2, x)] | None => [] end) ++
          (match v with Some e => E e ++ (if assignable env e t then [] else [(9, x)]) | None => [] end) ++
          chk_stmts fuel ret sc ((x, t) :: cur) rest
      | _ =>
          (match st with
           | SExpr e => E e
           | SGo e => E e
           | SAssign x v =>
               E v ++ (if list_eqb x [95] then [] else
                       match lookup_scopes env x with
                       | Some t => if assignable env v t then [] else [(9, x)]
                       | None => [(1, x)]
                       end)
           | SFieldAssign tg v => E tg ++ E v ++ (if assignable env v (T tg) then [] else [(9, [])])
           | SPointerAssign p v => E p ++ E v ++ (match T p with GPointer u => if assignable env v u then [] else [(9, [])] | _ => [(9, [])] end)
           | SIndexAssign a i v => E a ++ E i ++ E v ++ (match T a with GSlice u | GArray _ u => if assignable env v u then [] else [(9, [])] | _ => [(9, [])] end)
           | SReturn oe =>
               match oe, ret with
               | None, None => []
               | Some e, Some t => E e ++ (if assignable env e t then [] else [(10, [])])
               | _, _ => [(10, [])]
               end
           | SIf c th el => E c ++ (if gty_eqb (T c) GBool then [] else [(11, [])]) ++ block th ++ match el with Some b => block b | None => [] end
           | SLoop b => block b
           | SBreak => []
           | SSwitchExpr e cases d =>
               E e ++
               (fix go (l : list (expr * list stmt)) : list finding :=
                  match l with [] => [] | (c, b) :: r => E c ++ (if assignable env c (T e) then [] else [(14, [])]) ++ block b ++ go r end) cases ++
               match d with Some b => block b | None => [] end
           | SSwitchType bind e cases d =>
               E e ++ (if is_iface g (T e) then [] else [(14, [])]) ++
               (match bind with
                | Some x =>
                    let rd := flat_map (fun c => reads_s 400 (snd c)) cases ++ match d with Some b => reads_s 400 b | None => [] end in
                    if list_eqb x [95] || existsb (list_eqb x) rd then [] else [(12, x)]
                | None => []
                end) ++
               (fix go (l : list (gty * list stmt)) : list finding :=
                  match l with
                  | [] => []
                  | (t, b) :: r =>
                      (if known_type g t then [] else [(15, [])]) ++
                      chk_stmts fuel ret env (match bind with Some x => [(x, t)] | None => [] end) b ++ go r
                  end) cases ++
               match d with Some b => chk_stmts fuel ret env (match bind with Some x => [(x, T e)] | None => [] end) b | None => [] end
           | SVarDecl _ _ _ => []
           end) ++ chk_stmts fuel ret sc cur rest
      end
  end
  end.

End Chk.

Definition FUEL : nat := 400.

Definition chk_fn (g : genv) (f : fn) : list finding :=
  let dup_params := (fix go (l : list (str * gty)) (seen : list str) : list finding :=
                       match l with [] => [] | (x, _) :: r => (if existsb (list_eqb x) seen then [(2, x)] else []) ++ go r (x :: seen) end) (f_params f) [] in
  let body := chk_stmts g FUEL (f_ret f) [f_params f] [] (f_body f) in
  let rd := reads_s FUEL (f_body f) in
  let unused := flat_map (fun x => if list_eqb x [95] || existsb (list_eqb x) rd then [] else [(12, x)]) (decls_s FUEL (f_body f)) in
  dup_params ++ body ++ unused.

Fixpoint mk_genv (f : file) (g : genv) : genv :=
  match f with
  | [] => g
  | it :: r =>
      mk_genv r
        match it with
        | IFn x => {| g_fns := (f_name x, (map snd (f_params x), f_ret x)) :: g_fns g; g_structs := g_structs g; g_methods := g_methods g; g_ifaces := g_ifaces g; g_aliases := g_aliases g; g_imports := g_imports g |}
        | IStruct n fs ms => {| g_fns := g_fns g; g_structs := (n, fs) :: g_structs g; g_methods := (n, map snd ms) :: g_methods g; g_ifaces := g_ifaces g; g_aliases := g_aliases g; g_imports := g_imports g |}
        | IInterface n ms => {| g_fns := g_fns g; g_structs := g_structs g; g_methods := g_methods g; g_ifaces := (n, ms) :: g_ifaces g; g_aliases := g_aliases g; g_imports := g_imports g |}
        | ITypeAlias n t => {| g_fns := g_fns g; g_structs := g_structs g; g_methods := g_methods g; g_ifaces := g_ifaces g; g_aliases := (n, t) :: g_aliases g; g_imports := g_imports g |}
        | IImport ps => {| g_fns := g_fns g; g_structs := g_structs g; g_methods := g_methods g; g_ifaces := g_ifaces g; g_aliases := g_aliases g; g_imports := ps ++ g_imports g |}
        | IPackage _ => g
        end
  end.

Fixpoint all_reads (f : file) : list str :=
  match f with [] => [] | IFn x :: r => reads_s FUEL (f_body x) ++ all_reads r | _ :: r => all_reads r end.

Fixpoint has_prefix (p s : str) : bool :=
  match p, s with [] , _ => true | x :: p', y :: s' => (x =? y) && has_prefix p' s' | _ :: _, [] => false end.

(** duplicate top-level names *)
Fixpoint dups (l : list str) (seen : list str) : list finding :=
  match l with [] => [] | x :: r => (if existsb (list_eqb x) seen then [(2, x)] else []) ++ dups r (x :: seen) end.

Definition top_names (f : file) : list str :=
  flat_map (fun it => match it with IFn x => [f_name x] | IStruct n _ _ | IInterface n _ | ITypeAlias n _ => [n] | _ => [] end) f.

Definition go_wf (f : file) : list (str * finding) :=
  let g := mk_genv f {| g_fns := []; g_structs := []; g_methods := []; g_ifaces := []; g_aliases := []; g_imports := [] |} in
  let rd := all_reads f in
  flat_map (fun it => match it with IFn x => map (fun e => (f_name x, e)) (chk_fn g x) | _ => [] end) f
  ++ map (fun e => ([], e)) (dups (top_names f) [])
  ++ flat_map (fun p => if existsb (fun x => has_prefix (last_segment p ++ [46]) x) rd then [] else [([], (13, p))]) (g_imports g).
