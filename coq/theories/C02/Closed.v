(** C02 — what go_wf's expression checker accepts only mentions declared names *)
From Goml Require Import Common.Base Sem.GoAst C02.GoCheck.
Open Scope N_scope.

Definition declared (g : genv) (sc : list scope) (x : str) : Prop :=
  lookup_scopes sc x <> None \/ assoc (g_fns g) x <> None \/
  existsb (list_eqb x) builtin_fns = true \/ existsb (list_eqb x) cast_fns = true \/ is_extern g x = true.

Lemma app_nil2 {A} (a b : list A) : a ++ b = [] -> a = [] /\ b = [].
Proof. destruct a; cbn; [auto|discriminate]. Qed.

Lemma assoc_cast x u : assoc (map (fun c => (c, tt)) cast_fns) x = Some u -> existsb (list_eqb x) cast_fns = true.
Proof.
  generalize cast_fns. intros l. induction l as [|c l IH]; cbn; [discriminate|].
  destruct (list_eqb x c); [reflexivity|]. cbn. exact IH.
Qed.

Lemma in_builtin x s : In s builtin_fns -> list_eqb x s = true -> existsb (list_eqb x) builtin_fns = true.
Proof.
  generalize builtin_fns. intros l Hin H. induction l as [|c l IH]; [destruct Hin|].
  cbn. destruct Hin as [E|Hin]; [subst; rewrite H; reflexivity|]. rewrite (IH Hin). apply orb_true_r.
Qed.

Section Closed.
Variable g : genv.

Lemma arg_list fuel sc (P : expr -> Prop) (l : list expr) :
  (forall e, snd (synth g fuel sc e) = [] -> P e) ->
  (fix go (l : list expr) : list finding := match l with [] => [] | x :: r => snd (synth g fuel sc x) ++ go r end) l = [] ->
  Forall P l.
Proof.
  intros HP. induction l as [|x r IH]; intros H; [constructor|].
  apply app_nil2 in H. destruct H as [H1 H2]. constructor; [apply HP; exact H1|apply IH; exact H2].
Qed.

Lemma forall_flat (P : str -> Prop) fuel (l : list expr) :
  Forall (fun e => Forall P (reads_e fuel e)) l ->
  Forall P ((fix go (l : list expr) : list str := match l with [] => [] | x :: r => reads_e fuel x ++ go r end) l).
Proof. induction 1 as [|x r Hx Hr IH]; [constructor|]. apply Forall_app. split; assumption. Qed.

Theorem synth_closed : forall fuel sc e,
  snd (synth g fuel sc e) = [] -> Forall (declared g sc) (reads_e fuel e).
Proof.
  induction fuel as [|fuel IH]; intros sc e H; [discriminate H|].
  assert (IHl : forall l, (fix go (l : list expr) : list finding := match l with [] => [] | x :: r => snd (synth g fuel sc x) ++ go r end) l = [] ->
                Forall (declared g sc) ((fix go (l : list expr) : list str := match l with [] => [] | x :: r => reads_e fuel x ++ go r end) l)).
  { intros l Hl. apply forall_flat. apply (arg_list fuel sc _ l (IH sc)). exact Hl. }
  destruct e as [t|t|t|name t|b t|text t|text t|s t|f args t|op x t|op l r t|obj field t|arr idx t|x t|fields t|elems t|ss oe t]; cbn [synth reads_e] in *; try (constructor; fail).
  - (* var *)
    constructor; [|constructor]. unfold declared.
    destruct (lookup_scopes sc name) eqn:L; [left; congruence|].
    destruct (assoc (g_fns g) name) as [[ps r]|] eqn:A; [right; left; congruence|].
    cbn [snd] in H.
    destruct (existsb (list_eqb name) builtin_fns) eqn:B; [right; right; left; reflexivity|].
    destruct (existsb (list_eqb name) cast_fns) eqn:C; [right; right; right; left; reflexivity|].
    destruct (is_extern g name) eqn:X; [right; right; right; right; reflexivity|].
    cbn in H. discriminate H.
  - (* call *)
    destruct f;
    try (
      match goal with
      | H : snd (let (ft, ff) := synth g fuel sc ?F in _) = [] |- _ =>
          destruct (synth g fuel sc F) as [ft ff] eqn:SF;
          assert (Hf : snd (synth g fuel sc F) = []) by
            (rewrite SF; cbn [snd]; destruct ft; cbn [snd] in H; apply app_nil2 in H; tauto);
          apply Forall_app; split; [apply IH; exact Hf|];
          apply IHl; destruct ft; cbn [snd] in H; apply app_nil2 in H; destruct H as [_ H]; apply app_nil2 in H; tauto
      end).
    (* the callee is a name *)
    apply Forall_app. split.
    + destruct fuel as [|fuel']; [constructor|]. cbn [reads_e]. constructor; [|constructor]. unfold declared.
      destruct (lookup_scopes sc name) eqn:L; [left; congruence|].
      destruct (assoc (g_fns g) name) as [[ps r]|] eqn:A; [right; left; congruence|].
      right. right.
      destruct (list_eqb name s_any) eqn:E0; [left; eapply in_builtin; [|exact E0]; cbn; tauto|].
      destruct (list_eqb name s_sprintf) eqn:E1; [left; eapply in_builtin; [|exact E1]; cbn; tauto|].
      destruct (list_eqb name s_string) eqn:E2; [left; eapply in_builtin; [|exact E2]; cbn; tauto|].
      cbn [orb] in H.
      destruct (list_eqb name s_len) eqn:E3; [left; eapply in_builtin; [|exact E3]; cbn; tauto|].
      destruct (list_eqb name s_append) eqn:E4; [left; eapply in_builtin; [|exact E4]; cbn; tauto|].
      destruct (existsb (list_eqb name) builtin_fns) eqn:B; [left; reflexivity|].
      destruct (assoc (map (fun c => (c, tt)) cast_fns) name) eqn:C; [right; left; eapply assoc_cast; exact C|].
      cbn [snd] in H. apply app_nil2 in H. destruct H as [_ H].
      destruct (is_extern g name); [right; right; reflexivity|discriminate H].
    + apply IHl.
      destruct (lookup_scopes sc name) as [[]|] eqn:L; cbn [snd] in H; try (apply app_nil2 in H; tauto).
      destruct (assoc (g_fns g) name) as [[ps r]|] eqn:A; cbn [snd] in H; [apply app_nil2 in H; tauto|].
      destruct (list_eqb name s_any); [cbn [snd] in H; apply app_nil2 in H; tauto|].
      destruct (list_eqb name s_sprintf || list_eqb name s_string); [exact H|].
      destruct (list_eqb name s_len); [exact H|].
      destruct (list_eqb name s_append); [exact H|].
      destruct (existsb (list_eqb name) builtin_fns); [exact H|].
      destruct (assoc (map (fun c => (c, tt)) cast_fns) name); cbn [snd] in H; apply app_nil2 in H; tauto.
  - (* unary *)
    destruct (synth g fuel sc x) as [xt xf] eqn:SX. apply IH. rewrite SX. cbn [snd].
    destruct op; cbn [snd] in H; try (apply app_nil2 in H; tauto); try exact H.
    destruct xt; cbn [snd] in H; try (apply app_nil2 in H; tauto); exact H.
  - (* binary *)
    destruct (synth g fuel sc l) as [lt lf] eqn:SL. destruct (synth g fuel sc r) as [rt rf] eqn:SR.
    cbn [snd] in H. apply app_nil2 in H. destruct H as [H1 H]. apply app_nil2 in H. destruct H as [H2 _].
    apply Forall_app. split; apply IH; [rewrite SL|rewrite SR]; assumption.
  - (* field *)
    destruct (synth g fuel sc obj) as [ot off] eqn:SO. apply IH. rewrite SO. cbn [snd].
    destruct (struct_fields g ot) as [fs|]; [destruct (assoc fs field)|]; cbn [snd] in H; try exact H; apply app_nil2 in H; tauto.
  - (* index *)
    destruct (synth g fuel sc arr) as [at_ af] eqn:SA. destruct (synth g fuel sc idx) as [it jf] eqn:SI.
    assert (af = [] /\ jf = []) as [Ha Hi].
    { destruct at_; cbn [snd] in H; apply app_nil2 in H; destruct H as [H1 H]; apply app_nil2 in H; tauto. }
    apply Forall_app. split; apply IH; [rewrite SA|rewrite SI]; assumption.
  - (* cast *)
    destruct (synth g fuel sc x) as [xt xf] eqn:SX. apply IH. rewrite SX. cbn [snd] in *. apply app_nil2 in H. tauto.
  - (* struct literal *)
    cbn [snd] in H. apply app_nil2 in H. destruct H as [H _].
    clear - H IH. induction fields as [|[n x] r IHr]; [constructor|].
    apply app_nil2 in H. destruct H as [H1 H2]. apply Forall_app. split; [apply IH; exact H1|apply IHr; exact H2].
  - (* array literal *)
    cbn [snd] in H. apply app_nil2 in H. destruct H as [H _]. apply IHl. exact H.
Qed.
End Closed.
