(** C02 — pinned statements about the Go checker *)
From Goml Require Import Common.Base Sem.GoAst C02.GoCheck C02.Closed.
Open Scope N_scope.

Lemma list_eqb_true_eq (a b : str) : list_eqb a b = true -> a = b.
Proof.
  revert b; induction a as [|x a IH]; intros [|y b]; cbn; try discriminate; auto.
  intros H. apply andb_true_iff in H. destruct H as [H1 H2].
  apply N.eqb_eq in H1. subst. f_equal. auto.
Qed.

Lemma list_eqb_refl (a : str) : list_eqb a a = true.
Proof. induction a as [|x a IH]; cbn; [reflexivity|]. rewrite N.eqb_refl, IH. reflexivity. Qed.

Lemma existsb_in (x : str) (l : list str) : In x l -> existsb (list_eqb x) l = true.
Proof.
  induction l as [|y l IH]; cbn; [tauto|]. intros [E|H].
  - subst. rewrite list_eqb_refl. reflexivity.
  - rewrite (IH H). apply orb_true_r.
Qed.

Lemma dups_nil (l seen : list str) :
  dups l seen = [] -> NoDup l /\ (forall x, In x l -> ~ In x seen).
Proof.
  revert seen; induction l as [|x l IH]; intros seen H; cbn in *.
  - split; [constructor|tauto].
  - destruct (existsb (list_eqb x) seen) eqn:E; cbn in H; [discriminate|].
    destruct (IH _ H) as [ND Hs]. split.
    + constructor; [|exact ND]. intros Hin. apply (Hs x Hin). left. reflexivity.
    + intros y [Hy|Hy] Hsn.
      * subst. rewrite (existsb_in _ _ Hsn) in E. discriminate.
      * apply (Hs y Hy). right. exact Hsn.
Qed.

(** a file the checker accepts declares every top-level name (function, struct, interface, alias) once *)
Theorem accepted_files_declare_top_level_names_once :
  forall f, go_wf f = [] -> NoDup (top_names f).
Proof.
  intros f H. unfold go_wf in H.
  apply app_eq_nil in H. destruct H as [_ H].
  apply app_eq_nil in H. destruct H as [H _].
  apply map_eq_nil in H. apply dups_nil in H. tauto.
Qed.
Print Assumptions accepted_files_declare_top_level_names_once.

(** an expression on which the checker reports nothing only reads names that are declared in an
    enclosing scope, are top-level functions, Go builtins / conversions, or qualified by an imported package *)
Theorem accepted_expressions_mention_declared_names_only :
  forall g fuel sc e, snd (synth g fuel sc e) = [] -> Forall (declared g sc) (reads_e fuel e).
Proof. exact synth_closed. Qed.
Print Assumptions accepted_expressions_mention_declared_names_only.

(** non-vacuity and sensitivity: a two-function file passes; using an undeclared name, a second declaration
    in one scope, an unused local and an unused import are each reported *)
Definition nm (n : N) : str := [n].
Definition ex_fn (body : list stmt) : item := IFn {| f_name := nm 102; f_params := [(nm 120, GInt32)]; f_ret := Some GInt32; f_body := body |}.
Example good : go_wf [IPackage (nm 109); ex_fn [SVarDecl (nm 121) GInt32 (Some (EBinary BAdd (EVar (nm 120) GInt32) (EInt (nm 49) GInt32) GInt32)); SReturn (Some (EVar (nm 121) GInt32))]] = [].
Proof. reflexivity. Qed.
Example undeclared : exists r, go_wf [ex_fn [SReturn (Some (EVar (nm 122) GInt32))]] = (nm 102, (1, nm 122)) :: r.
Proof. eexists. reflexivity. Qed.
Example unused_local : exists r, go_wf [ex_fn [SVarDecl (nm 121) GInt32 None; SReturn (Some (EVar (nm 120) GInt32))]] = (nm 102, (12, nm 121)) :: r.
Proof. eexists. reflexivity. Qed.
Example wrong_return : exists r, go_wf [ex_fn [SReturn (Some (EString (nm 97) GString))]] = (nm 102, (10, [])) :: r.
Proof. eexists. reflexivity. Qed.
Example unused_import : exists r, go_wf [IImport [nm 102 ++ nm 109 ++ nm 116]; ex_fn [SReturn (Some (EVar (nm 120) GInt32))]] = ([], (13, nm 102 ++ nm 109 ++ nm 116)) :: r.
Proof. eexists. reflexivity. Qed.
