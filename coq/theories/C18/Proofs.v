(** C18 — decoding the derived JSON text gives the value back *)
From Goml Require Import Common.Base C18.Model.
From Goml Require Sem.GoSem.
Open Scope N_scope.

(** characters that Go's %q writes in a way JSON reads back: printable ASCII and \b \t \n \f \r *)
Definition safe_char (c : N) : bool :=
  ((32 <=? c) && (c <? 127)) || (c =? 8) || (c =? 9) || (c =? 10) || (c =? 12) || (c =? 13).

Fixpoint vsafe (v : value) : bool :=
  let fix all (l : list value) : bool := match l with [] => true | x :: r => vsafe x && all r end in
  match v with
  | VInt _ ds => negb (match ds with [] => true | _ => false end) && forallb (fun d => d <? 10) ds
  | VStr s => forallb safe_char s
  | VStruct l | VEnum _ l => all l
  | _ => true
  end.

Definition nodigit (rest : str) : Prop := match rest with c :: _ => is_digit c = false | [] => True end.

Lemma expect_app p rest : expect p (p ++ rest) = Some rest.
Proof. induction p as [|c p IH]; cbn; [reflexivity|]. rewrite N.eqb_refl. exact IH. Qed.

Lemma span_digits_app ds rest :
  forallb (fun d => d <? 10) ds = true -> nodigit rest ->
  span_digits (map (fun d => 48 + d) ds ++ rest) = (ds, rest).
Proof.
  intros H Hn. induction ds as [|d ds IH]; cbn [map app].
  - destruct rest as [|c r]; [reflexivity|]. cbn [span_digits]. cbn in Hn. rewrite Hn. reflexivity.
  - cbn [forallb] in H. apply andb_true_iff in H. destruct H as [Hd Hr]. apply N.ltb_lt in Hd.
    cbn [span_digits]. unfold is_digit.
    replace (48 <=? 48 + d) with true by (symmetry; apply N.leb_le; lia).
    replace (48 + d <=? 57) with true by (symmetry; apply N.leb_le; lia).
    cbn [andb]. rewrite (IH Hr). f_equal. f_equal. lia.
Qed.

(** strings *)
Lemma unq_quote s : forallb safe_char s = true ->
  exists q, Sem.GoSem.quote_body s = Some q /\ forall rest, unq (q ++ 34 :: rest) = Some (s, rest).
Proof.
  induction s as [|c s IH]; intros H.
  - exists []. split; [reflexivity|]. intros rest. reflexivity.
  - cbn [forallb] in H. apply andb_true_iff in H. destruct H as [Hc Hs]. destruct (IH Hs) as [q [Hq Hu]].
    cbn [Sem.GoSem.quote_body]. rewrite Hq. unfold safe_char in Hc.
    destruct (N.eqb_spec c 34) as [->|N34]; [eexists; split; [reflexivity|]; intros rest; cbn [app unq]; rewrite Hu; reflexivity|].
    destruct (N.eqb_spec c 92) as [->|N92]; [eexists; split; [reflexivity|]; intros rest; cbn [app unq]; rewrite Hu; reflexivity|].
    destruct (N.eqb_spec c 10) as [->|N10]; [eexists; split; [reflexivity|]; intros rest; cbn [app unq]; rewrite Hu; reflexivity|].
    destruct (N.eqb_spec c 13) as [->|N13]; [eexists; split; [reflexivity|]; intros rest; cbn [app unq]; rewrite Hu; reflexivity|].
    destruct (N.eqb_spec c 9) as [->|N9]; [eexists; split; [reflexivity|]; intros rest; cbn [app unq]; rewrite Hu; reflexivity|].
    destruct (N.eqb_spec c 7) as [->|N7]; [cbn in Hc; discriminate Hc|].
    destruct (N.eqb_spec c 8) as [->|N8]; [eexists; split; [reflexivity|]; intros rest; cbn [app unq]; rewrite Hu; reflexivity|].
    destruct (N.eqb_spec c 12) as [->|N12]; [eexists; split; [reflexivity|]; intros rest; cbn [app unq]; rewrite Hu; reflexivity|].
    destruct (N.eqb_spec c 11) as [->|N11]; [cbn in Hc; discriminate Hc|].
    assert (P : 32 <= c < 127).
    { rewrite !orb_false_r in Hc.
      apply andb_true_iff in Hc. destruct Hc as [A B]. apply N.leb_le in A. apply N.ltb_lt in B. lia. }
    replace (c <? 32) with false by (symmetry; apply N.ltb_ge; lia).
    replace (c =? 127) with false by (symmetry; apply N.eqb_neq; lia).
    replace (c <? 127) with true by (symmetry; apply N.ltb_lt; lia).
    eexists; split; [reflexivity|]. intros rest. cbn [app unq].
    replace (c =? 34) with false by (symmetry; apply N.eqb_neq; lia).
    replace (c =? 92) with false by (symmetry; apply N.eqb_neq; lia).
    replace (c <? 32) with false by (symmetry; apply N.ltb_ge; lia).
    rewrite Hu. reflexivity.
Qed.

(** ** the list loops of the encoder and of the decoder, over arbitrary element functions *)
Section Lists.
Opaque key.
Variable E : fty -> value -> option str.
Variable D : fty -> str -> option (value * str).

Definition enc_fields_g := fix go (fs : list (str * fty)) (vs : list value) {struct fs} : option str :=
  match fs, vs with
  | [(n, t)], [v] => match E t v with Some e => Some (key n ++ e) | None => None end
  | (n, t) :: fr, v :: vr =>
      match E t v, go fr vr with Some e, Some r => Some (key n ++ e ++ [44] ++ r) | _, _ => None end
  | _, _ => None
  end.

Definition enc_list_g := fix go (ts : list fty) (vs : list value) {struct ts} : option str :=
  match ts, vs with
  | [t], [v] => E t v
  | t :: tr, v :: vr => match E t v, go tr vr with Some e, Some r => Some (e ++ [44] ++ r) | _, _ => None end
  | _, _ => None
  end.

Definition dec_fields_g := fix go (fs : list (str * fty)) (s : str) {struct fs} : option (list value * str) :=
  match fs with
  | [] => None
  | [(n, t)] => match expect (key n) s with
                | Some s1 => match D t s1 with Some (v, s2) => Some ([v], s2) | None => None end
                | None => None
                end
  | (n, t) :: fr =>
      match expect (key n) s with
      | Some s1 =>
          match D t s1 with
          | Some (v, 44 :: s2) => match go fr s2 with Some (vs, s3) => Some (v :: vs, s3) | None => None end
          | _ => None
          end
      | None => None
      end
  end.

Definition dec_list_g := fix go (ts : list fty) (s : str) {struct ts} : option (list value * str) :=
  match ts with
  | [] => None
  | [t] => match D t s with Some (v, s2) => Some ([v], s2) | None => None end
  | t :: tr =>
      match D t s with
      | Some (v, 44 :: s2) => match go tr s2 with Some (vs, s3) => Some (v :: vs, s3) | None => None end
      | _ => None
      end
  end.

(** if every element decodes back, so do the lists *)
Hypothesis ED : forall t v s rest, E t v = Some s -> vsafe v = true -> nodigit rest -> D t (s ++ rest) = Some (v, rest).

Definition all_safe (l : list value) : bool := (fix all (l : list value) : bool := match l with [] => true | x :: r => vsafe x && all r end) l.

Lemma ef_one n t v : enc_fields_g [(n, t)] [v] = match E t v with Some e => Some (key n ++ e) | None => None end.
Proof. reflexivity. Qed.
Lemma ef_more n t n2 t2 fr v vr : enc_fields_g ((n, t) :: (n2, t2) :: fr) (v :: vr) =
  match E t v, enc_fields_g ((n2, t2) :: fr) vr with Some e, Some r => Some (key n ++ e ++ [44] ++ r) | _, _ => None end.
Proof. reflexivity. Qed.
Lemma df_one n t s : dec_fields_g [(n, t)] s =
  match expect (key n) s with Some s1 => match D t s1 with Some (v, s2) => Some ([v], s2) | None => None end | None => None end.
Proof. reflexivity. Qed.
Lemma df_more n t n2 t2 fr s : dec_fields_g ((n, t) :: (n2, t2) :: fr) s =
  match expect (key n) s with
  | Some s1 => match D t s1 with
               | Some (v, 44 :: s2) => match dec_fields_g ((n2, t2) :: fr) s2 with Some (vs, s3) => Some (v :: vs, s3) | None => None end
               | _ => None end
  | None => None end.
Proof. reflexivity. Qed.
Lemma el_one t v : enc_list_g [t] [v] = E t v.
Proof. reflexivity. Qed.
Lemma el_more t t2 tr v vr : enc_list_g (t :: t2 :: tr) (v :: vr) =
  match E t v, enc_list_g (t2 :: tr) vr with Some e, Some r => Some (e ++ [44] ++ r) | _, _ => None end.
Proof. reflexivity. Qed.
Lemma dl_one t s : dec_list_g [t] s = match D t s with Some (v, s2) => Some ([v], s2) | None => None end.
Proof. reflexivity. Qed.
Lemma dl_more t t2 tr s : dec_list_g (t :: t2 :: tr) s =
  match D t s with
  | Some (v, 44 :: s2) => match dec_list_g (t2 :: tr) s2 with Some (vs, s3) => Some (v :: vs, s3) | None => None end
  | _ => None end.
Proof. reflexivity. Qed.

Lemma fields_rt : forall fs vs b rest,
  enc_fields_g fs vs = Some b -> all_safe vs = true -> nodigit rest ->
  dec_fields_g fs (b ++ rest) = Some (vs, rest).
Proof.
  induction fs as [|[n t] fr IH]; intros vs b rest He Hs Hn; [destruct vs; discriminate He|].
  destruct vs as [|v vr]; [destruct fr; discriminate He|].
  cbn [all_safe] in Hs. apply andb_true_iff in Hs. destruct Hs as [Sv Sr].
  destruct fr as [|[n2 t2] fr].
  - destruct vr as [|v2 vr]; [|cbn in He; destruct (E t v); discriminate He].
    rewrite ef_one in He. destruct (E t v) as [e|] eqn:Ev; [|discriminate He]. injection He as <-.
    rewrite df_one, <- app_assoc, expect_app. rewrite (ED _ _ _ rest Ev Sv Hn). reflexivity.
  - rewrite ef_more in He.
    destruct (E t v) as [e|] eqn:Ev; [|discriminate He].
    destruct (enc_fields_g ((n2, t2) :: fr) vr) as [r|] eqn:Er; [|discriminate He]. injection He as <-.
    rewrite df_more. repeat rewrite <- app_assoc. rewrite expect_app.
    rewrite (ED _ _ _ ((44 :: r) ++ rest) Ev Sv ltac:(exact eq_refl)).
    cbn [app]. rewrite (IH vr r rest Er Sr Hn). reflexivity.
Qed.

Lemma list_rt : forall ts vs b rest,
  enc_list_g ts vs = Some b -> all_safe vs = true -> nodigit rest ->
  dec_list_g ts (b ++ rest) = Some (vs, rest).
Proof.
  induction ts as [|t tr IH]; intros vs b rest He Hs Hn; [destruct vs; discriminate He|].
  destruct vs as [|v vr]; [destruct tr; discriminate He|].
  cbn [all_safe] in Hs. apply andb_true_iff in Hs. destruct Hs as [Sv Sr].
  destruct tr as [|t2 tr].
  - destruct vr as [|v2 vr]; [|cbn in He; destruct (E t v); discriminate He].
    rewrite el_one in He. rewrite dl_one, (ED _ _ _ rest He Sv Hn). reflexivity.
  - rewrite el_more in He.
    destruct (E t v) as [e|] eqn:Ev; [|discriminate He].
    destruct (enc_list_g (t2 :: tr) vr) as [r|] eqn:Er; [|discriminate He]. injection He as <-.
    rewrite dl_more. repeat rewrite <- app_assoc.
    rewrite (ED _ _ _ ((44 :: r) ++ rest) Ev Sv ltac:(exact eq_refl)).
    cbn [app]. rewrite (IH vr r rest Er Sr Hn). reflexivity.
Qed.
End Lists.
Transparent key.

(** ** one step of the encoder and of the decoder *)
Lemma enc_S defs f t v : enc defs (S f) t v =
  match t, v with
  | FInt, VInt neg ds => Some ((if neg then [45] else []) ++ map (fun d => 48 + d) ds)
  | FBool, VBool b => Some (if b then s_true else s_false)
  | FString, VStr s => match Sem.GoSem.quote_body s with Some q => Some ([34] ++ q ++ [34]) | None => None end
  | FUnit, VUnit => Some s_null
  | FNamed i, VStruct vs =>
      match nth_error defs i with
      | Some (DStruct _ []) => match vs with [] => Some [123;125] | _ => None end
      | Some (DStruct _ fs) => match enc_fields_g (enc defs f) fs vs with Some b => Some ([123] ++ b ++ [125]) | None => None end
      | _ => None
      end
  | FNamed i, VEnum k args =>
      match nth_error defs i with
      | Some (DEnum _ variants) =>
          match nth_error variants k with
          | Some (vn, []) => match args with [] => Some (s_tag ++ vn ++ s_end_tag) | _ => None end
          | Some (vn, ts) => match enc_list_g (enc defs f) ts args with Some b => Some (s_tag ++ vn ++ s_fields ++ b ++ s_end_fields) | None => None end
          | None => None
          end
      | _ => None
      end
  | _, _ => None
  end.
Proof. reflexivity. Qed.

Lemma dec_S defs f t s : dec defs (S f) t s =
  match t with
  | FInt =>
      let (neg, s1) := match s with c :: r => if c =? 45 then (true, r) else (false, s) | [] => (false, s) end in
      match span_digits s1 with
      | ([], _) => None
      | (ds, rest) => Some (VInt neg ds, rest)
      end
  | FBool =>
      match expect s_true s with
      | Some r => Some (VBool true, r)
      | None => match expect s_false s with Some r => Some (VBool false, r) | None => None end
      end
  | FString => match s with 34 :: r => match unq r with Some (b, rest) => Some (VStr b, rest) | None => None end | _ => None end
  | FUnit => match expect s_null s with Some r => Some (VUnit, r) | None => None end
  | FNamed i =>
      match nth_error defs i with
      | Some (DStruct _ []) => match expect [123;125] s with Some r => Some (VStruct [], r) | None => None end
      | Some (DStruct _ fs) =>
          match s with
          | 123 :: s1 => match dec_fields_g (dec defs f) fs s1 with Some (vs, 125 :: r) => Some (VStruct vs, r) | _ => None end
          | _ => None
          end
      | Some (DEnum _ variants) =>
          match expect s_tag s with
          | Some s1 =>
              match read_name s1 with
              | Some (vn, s2) =>
                  match find_variant vn variants 0 with
                  | Some (k, []) => match expect s_end_tag s2 with Some r => Some (VEnum k [], r) | None => None end
                  | Some (k, ts) =>
                      match expect s_fields s2 with
                      | Some s3 => match dec_list_g (dec defs f) ts s3 with
                                   | Some (vs, s4) => match expect s_end_fields s4 with Some r => Some (VEnum k vs, r) | None => None end
                                   | None => None
                                   end
                      | None => None
                      end
                  | None => None
                  end
              | None => None
              end
          | None => None
          end
      | None => None
      end
  end.
Proof. reflexivity. Qed.

(** variant names are pairwise different and contain no quote *)
Definition noquote (n : str) : bool := forallb (fun c => negb (c =? 34)) n.
Definition variants_ok (vs : list (str * list fty)) : Prop :=
  NoDup (map fst vs) /\ Forall (fun n => noquote n = true) (map fst vs).
Definition defs_ok (defs : list def) : Prop :=
  forall i name vs, nth_error defs i = Some (DEnum name vs) -> variants_ok vs.

Lemma read_name_app n rest : noquote n = true -> read_name (n ++ 34 :: rest) = Some (n, 34 :: rest).
Proof.
  induction n as [|c n IH]; intros H; cbn [app read_name].
  - reflexivity.
  - cbn [noquote forallb] in H. apply andb_true_iff in H. destruct H as [Hc Hn].
    apply negb_true_iff in Hc. rewrite Hc. fold (noquote n) in Hn. rewrite (IH Hn). reflexivity.
Qed.

Lemma list_eqb_refl (a : str) : list_eqb a a = true.
Proof. induction a as [|x a IH]; cbn; [reflexivity|]. rewrite N.eqb_refl, IH. reflexivity. Qed.
Lemma list_eqb_true (a b : str) : list_eqb a b = true -> a = b.
Proof.
  revert b; induction a as [|x a IH]; intros [|y b]; cbn; try discriminate; auto.
  intros H. apply andb_true_iff in H. destruct H as [H1 H2]. apply N.eqb_eq in H1. subst. f_equal. auto.
Qed.

Lemma find_variant_nth vs : forall k j vn ts,
  NoDup (map fst vs) -> nth_error vs k = Some (vn, ts) -> find_variant vn vs j = Some ((j + k)%nat, ts).
Proof.
  induction vs as [|[m us] vs IH]; intros k j vn ts ND Hk; [destruct k; discriminate Hk|].
  cbn [map fst] in ND. inversion ND as [|? ? Hnotin ND']; subst.
  destruct k as [|k]; cbn [nth_error] in Hk.
  - inversion Hk; subst. cbn [find_variant]. rewrite list_eqb_refl. f_equal. f_equal. lia.
  - cbn [find_variant]. destruct (list_eqb vn m) eqn:E.
    + apply list_eqb_true in E. subst. exfalso. apply Hnotin.
      apply nth_error_In in Hk. apply (in_map fst) in Hk. exact Hk.
    + rewrite (IH k (S j) vn ts ND' Hk). f_equal. f_equal. lia.
Qed.

Lemma all_safe_eq l : all_safe l = (fix all (l : list value) : bool := match l with [] => true | x :: r => vsafe x && all r end) l.
Proof. reflexivity. Qed.

Theorem decode_encode defs : defs_ok defs ->
  forall f t v s rest, enc defs f t v = Some s -> vsafe v = true -> nodigit rest ->
  dec defs f t (s ++ rest) = Some (v, rest).
Proof.
  intros DOK. induction f as [|f IH]; intros t v s rest He Hs Hn; [discriminate He|].
  rewrite enc_S in He. rewrite dec_S.
  destruct t as [| | | |i]; destruct v as [neg ds|b|str0| |vs|k args]; try discriminate He.
  - (* integers *)
    injection He as <-. cbn [vsafe] in Hs. apply andb_true_iff in Hs. destruct Hs as [Hne Hd].
    destruct ds as [|d ds]; [discriminate Hne|].
    destruct neg.
    + cbn [app]. rewrite N.eqb_refl. cbv beta iota. rewrite (span_digits_app (d :: ds) rest Hd Hn). reflexivity.
    + cbn [app map]. pose proof Hd as Hd'. cbn [forallb] in Hd'. apply andb_true_iff in Hd'. destruct Hd' as [Hd1 _]. apply N.ltb_lt in Hd1.
      replace (48 + d =? 45) with false by (symmetry; apply N.eqb_neq; lia).
      cbv beta iota. change (48 + d :: map (fun d0 => 48 + d0) ds ++ rest) with (map (fun d0 => 48 + d0) (d :: ds) ++ rest).
      rewrite (span_digits_app (d :: ds) rest Hd Hn). reflexivity.
  - (* booleans *)
    injection He as <-. destruct b.
    + rewrite expect_app. reflexivity.
    + replace (expect s_true (s_false ++ rest)) with (@None str) by reflexivity. rewrite expect_app. reflexivity.
  - (* strings *)
    cbn [vsafe] in Hs. destruct (unq_quote str0 Hs) as [q [Hq Hu]]. rewrite Hq in He. injection He as <-.
    cbn [app]. rewrite <- app_assoc. cbn [app]. rewrite Hu. reflexivity.
  - (* unit *)
    injection He as <-. rewrite expect_app. reflexivity.
  - (* structs *)
    destruct (nth_error defs i) as [[nm fs|nm vars]|] eqn:Ed; try discriminate He.
    destruct fs as [|f1 fs].
    + destruct vs; [|discriminate He]. injection He as <-. rewrite expect_app. reflexivity.
    + destruct (enc_fields_g (enc defs f) (f1 :: fs) vs) as [b|] eqn:Eb; [|discriminate He]. injection He as <-.
      cbn [app]. rewrite <- app_assoc. cbn [app].
      rewrite (fields_rt (enc defs f) (dec defs f) IH (f1 :: fs) vs b (125 :: rest) Eb); [reflexivity| |exact eq_refl].
      rewrite all_safe_eq. exact Hs.
  - (* enums *)
    destruct (nth_error defs i) as [[nm fs|nm vars]|] eqn:Ed; try discriminate He.
    destruct (nth_error vars k) as [[vn ts]|] eqn:Ek; [|discriminate He].
    destruct (DOK i nm vars Ed) as [ND NQ].
    assert (Qv : noquote vn = true).
    { rewrite Forall_forall in NQ. apply NQ. apply nth_error_In in Ek. apply (in_map fst) in Ek. exact Ek. }
    pose proof (find_variant_nth vars k 0 vn ts ND Ek) as FV. cbn [Nat.add] in FV.
    destruct ts as [|t1 ts].
    + destruct args; [|discriminate He]. match type of He with Some ?X = Some _ => assert (Es : X = s) by congruence; subst s end.
      repeat rewrite <- app_assoc. rewrite expect_app.
      change (s_end_tag ++ rest) with (34 :: 125 :: rest). rewrite (read_name_app vn (125 :: rest) Qv), FV.
      change (34 :: 125 :: rest) with (s_end_tag ++ rest). rewrite expect_app. reflexivity.
    + destruct (enc_list_g (enc defs f) (t1 :: ts) args) as [b|] eqn:Eb; [|discriminate He]. match type of He with Some ?X = Some _ => assert (Es : X = s) by congruence; subst s end.
      repeat rewrite <- app_assoc. rewrite expect_app.
      change (s_fields ++ b ++ s_end_fields ++ rest) with (34 :: (tl s_fields ++ b ++ s_end_fields ++ rest)).
      rewrite (read_name_app vn _ Qv), FV.
      change (34 :: (tl s_fields ++ b ++ s_end_fields ++ rest)) with (s_fields ++ b ++ s_end_fields ++ rest).
      rewrite expect_app.
      rewrite (list_rt (enc defs f) (dec defs f) IH (t1 :: ts) args b (s_end_fields ++ rest) Eb); [|rewrite all_safe_eq; exact Hs|exact eq_refl].
      rewrite expect_app. reflexivity.
Qed.
