(** C18 — model of the text produced by #[derive(ToJson)] (derive.rs: one object per struct,
    an object with tag and fields per variant, strings through fmt.Sprintf with the q verb as modelled in Sem/GoSem.v)
    and a type-directed JSON decoder. *)
From Goml Require Import Common.Base.
From Goml Require Sem.GoSem.
Open Scope N_scope.

Inductive fty := FInt | FBool | FString | FUnit | FNamed (i : nat).
Inductive def :=
| DStruct (name : str) (fields : list (str * fty))
| DEnum (name : str) (variants : list (str * list fty)).

(** integers are kept as their decimal spelling (sign, digits): that the spelling is the number is C10's theorem *)
Inductive value :=
| VInt (neg : bool) (digits : list N)
| VBool (b : bool)
| VStr (s : str)
| VUnit
| VStruct (fields : list value)
| VEnum (variant : nat) (args : list value).

Definition s_true : str := [116;114;117;101].
Definition s_false : str := [102;97;108;115;101].
Definition s_null : str := [110;117;108;108].
Definition s_tag : str := [123;34;116;97;103;34;58;34].               (* brace, quoted tag, colon, quote *)
Definition s_fields : str := [34;44;34;102;105;101;108;100;115;34;58;91].  (* quote, comma, quoted fields, colon, bracket *)
Definition s_end_fields : str := [93;125].                             (* bracket, brace *)
Definition s_end_tag : str := [34;125].                                (* quote, brace *)

Section Codec.
Variable defs : list def.

Definition key (n : str) : str := [34] ++ n ++ [34;58].   (* the quoted name and a colon *)

Fixpoint enc (fuel : nat) (t : fty) (v : value) {struct fuel} : option str :=
  match fuel with
  | O => None
  | S fuel =>
      let enc_fields := fix go (fs : list (str * fty)) (vs : list value) {struct fs} : option str :=
        match fs, vs with
        | [(n, t)], [v] => match enc fuel t v with Some e => Some (key n ++ e) | None => None end
        | (n, t) :: fr, v :: vr =>
            match enc fuel t v, go fr vr with Some e, Some r => Some (key n ++ e ++ [44] ++ r) | _, _ => None end
        | _, _ => None
        end in
      let enc_list := fix go (ts : list fty) (vs : list value) {struct ts} : option str :=
        match ts, vs with
        | [t], [v] => enc fuel t v
        | t :: tr, v :: vr => match enc fuel t v, go tr vr with Some e, Some r => Some (e ++ [44] ++ r) | _, _ => None end
        | _, _ => None
        end in
      match t, v with
      | FInt, VInt neg ds => Some ((if neg then [45] else []) ++ map (fun d => 48 + d) ds)
      | FBool, VBool b => Some (if b then s_true else s_false)
      | FString, VStr s => match Sem.GoSem.quote_body s with Some q => Some ([34] ++ q ++ [34]) | None => None end
      | FUnit, VUnit => Some s_null
      | FNamed i, VStruct vs =>
          match nth_error defs i with
          | Some (DStruct _ []) => match vs with [] => Some [123;125] | _ => None end
          | Some (DStruct _ fs) => match enc_fields fs vs with Some b => Some ([123] ++ b ++ [125]) | None => None end
          | _ => None
          end
      | FNamed i, VEnum k args =>
          match nth_error defs i with
          | Some (DEnum _ variants) =>
              match nth_error variants k with
              | Some (vn, []) => match args with [] => Some (s_tag ++ vn ++ s_end_tag) | _ => None end
              | Some (vn, ts) => match enc_list ts args with Some b => Some (s_tag ++ vn ++ s_fields ++ b ++ s_end_fields) | None => None end
              | None => None
              end
          | _ => None
          end
      | _, _ => None
      end
  end.

(** ** the decoder *)
Fixpoint expect (p s : str) : option str :=
  match p with
  | [] => Some s
  | c :: p' => match s with d :: s' => if c =? d then expect p' s' else None | [] => None end
  end.

Definition is_digit (c : N) : bool := (48 <=? c) && (c <=? 57).

Fixpoint span_digits (s : str) : list N * str :=
  match s with
  | c :: r => if is_digit c then let (ds, rest) := span_digits r in ((c - 48) :: ds, rest) else ([], s)
  | [] => ([], [])
  end.

(** a JSON string body up to the closing quote: the escapes for quote, backslash, b, f, n, r, t (no other escape is accepted) *)
Fixpoint unq (s : str) : option (str * str) :=
  match s with
  | [] => None
  | c :: r =>
      if c =? 34 then Some ([], r)
      else if c =? 92 then
        match r with
        | e :: r' =>
            let d := if e =? 34 then Some 34 else if e =? 92 then Some 92 else if e =? 98 then Some 8 else if e =? 102 then Some 12
                     else if e =? 110 then Some 10 else if e =? 114 then Some 13 else if e =? 116 then Some 9 else None in
            match d, unq r' with Some d, Some (b, rest) => Some (d :: b, rest) | _, _ => None end
        | [] => None
        end
      else if c <? 32 then None
      else match unq r with Some (b, rest) => Some (c :: b, rest) | None => None end
  end.

Fixpoint read_name (s : str) : option (str * str) :=
  match s with
  | [] => None
  | c :: r => if c =? 34 then Some ([], s) else match read_name r with Some (n, rest) => Some (c :: n, rest) | None => None end
  end.

Fixpoint find_variant (n : str) (vs : list (str * list fty)) (k : nat) : option (nat * list fty) :=
  match vs with
  | [] => None
  | (m, ts) :: r => if list_eqb n m then Some (k, ts) else find_variant n r (S k)
  end.

Fixpoint dec (fuel : nat) (t : fty) (s : str) {struct fuel} : option (value * str) :=
  match fuel with
  | O => None
  | S fuel =>
      let dec_fields := fix go (fs : list (str * fty)) (s : str) {struct fs} : option (list value * str) :=
        match fs with
        | [] => None
        | [(n, t)] => match expect (key n) s with
                      | Some s1 => match dec fuel t s1 with Some (v, s2) => Some ([v], s2) | None => None end
                      | None => None
                      end
        | (n, t) :: fr =>
            match expect (key n) s with
            | Some s1 =>
                match dec fuel t s1 with
                | Some (v, 44 :: s2) => match go fr s2 with Some (vs, s3) => Some (v :: vs, s3) | None => None end
                | _ => None
                end
            | None => None
            end
        end in
      let dec_list := fix go (ts : list fty) (s : str) {struct ts} : option (list value * str) :=
        match ts with
        | [] => None
        | [t] => match dec fuel t s with Some (v, s2) => Some ([v], s2) | None => None end
        | t :: tr =>
            match dec fuel t s with
            | Some (v, 44 :: s2) => match go tr s2 with Some (vs, s3) => Some (v :: vs, s3) | None => None end
            | _ => None
            end
        end in
      match t with
      | FInt =>
          let (neg, s1) := match s with c :: r => if c =? 45 then (true, r) else (false, s) | [] => (false, s) end in
          match span_digits s1 with
          | ([], _) => None
          | (ds, rest) => Some (VInt neg ds, rest)
          end
      | FBool =>
          match expect s_true s with
          | Some r => Some (VBool true, r)
          | None => match expect s_false s with Some r => Some (VBool false, r) | None => None end
          end
      | FString => match s with 34 :: r => match unq r with Some (b, rest) => Some (VStr b, rest) | None => None end | _ => None end
      | FUnit => match expect s_null s with Some r => Some (VUnit, r) | None => None end
      | FNamed i =>
          match nth_error defs i with
          | Some (DStruct _ []) => match expect [123;125] s with Some r => Some (VStruct [], r) | None => None end
          | Some (DStruct _ fs) =>
              match s with
              | 123 :: s1 => match dec_fields fs s1 with Some (vs, 125 :: r) => Some (VStruct vs, r) | _ => None end
              | _ => None
              end
          | Some (DEnum _ variants) =>
              match expect s_tag s with
              | Some s1 =>
                  match read_name s1 with
                  | Some (vn, s2) =>
                      match find_variant vn variants 0 with
                      | Some (k, []) => match expect s_end_tag s2 with Some r => Some (VEnum k [], r) | None => None end
                      | Some (k, ts) =>
                          match expect s_fields s2 with
                          | Some s3 => match dec_list ts s3 with
                                       | Some (vs, s4) => match expect s_end_fields s4 with Some r => Some (VEnum k vs, r) | None => None end
                                       | None => None
                                       end
                          | None => None
                          end
                      | None => None
                      end
                  | None => None
                  end
              | None => None
              end
          | None => None
          end
      end
  end.

End Codec.

(** decidable equality on values, for the correspondence check *)
Fixpoint value_eqb (a b : value) {struct a} : bool :=
  let fix list_eq (x y : list value) : bool :=
    match x, y with
    | [], [] => true
    | p :: x', q :: y' => value_eqb p q && list_eq x' y'
    | _, _ => false
    end in
  match a, b with
  | VInt n d, VInt m e => Bool.eqb n m && list_eqb d e
  | VBool x, VBool y => Bool.eqb x y
  | VStr x, VStr y => list_eqb x y
  | VUnit, VUnit => true
  | VStruct x, VStruct y => list_eq x y
  | VEnum k x, VEnum j y => Nat.eqb k j && list_eq x y
  | _, _ => false
  end.
