(** C18 — pinned statements about the derived JSON text *)
From Goml Require Import Common.Base C18.Model C18.Proofs.
From Goml Require Sem.GoSem.
Open Scope N_scope.

(** faithfulness: for all struct/enum definitions whose variant names are pairwise different and free
    of quotes, every value whose strings consist of printable ASCII and \b \t \n \f \r and whose
    integers are non-empty digit strings, and every continuation that does not start with a digit:
    decoding the text written by the derived to_json (model of derive.rs + Go's %q) gives the value
    back and consumes exactly that text *)
Theorem to_json_decodes_back_to_the_value :
  forall defs, defs_ok defs ->
  forall fuel t v s rest, enc defs fuel t v = Some s -> vsafe v = true -> nodigit rest ->
  dec defs fuel t (s ++ rest) = Some (v, rest).
Proof. exact decode_encode. Qed.
Print Assumptions to_json_decodes_back_to_the_value.

(** non-vacuity: nested struct / recursive enum, strings with quotes, backslashes and line breaks *)
Definition ex_defs : list def :=
  [ DStruct [80] [([97], FInt); ([116;97;103], FString); ([98], FBool)];
    DEnum [69] [([78], []); ([67], [FNamed 0; FNamed 1; FUnit])] ].
Definition ex_val : value :=
  VEnum 1 [VStruct [VInt true [4; 2]; VStr [113; 34; 92; 10; 120]; VBool false]; VEnum 0 []; VUnit].
Example ex_ok : exists s, enc ex_defs 10 (FNamed 1) ex_val = Some s /\ vsafe ex_val = true /\ dec ex_defs 10 (FNamed 1) s = Some (ex_val, []).
Proof. eexists. split; [reflexivity|]. split; reflexivity. Qed.
Example ex_defs_ok : defs_ok ex_defs.
Proof.
  intros i name vs H. destruct i as [|[|i]]; cbn in H; try discriminate.
  - inversion H; subst. split.
    + repeat constructor; cbn; intuition discriminate.
    + repeat constructor.
  - destruct i; discriminate H.
Qed.

(** outside the hypothesis the property fails (known finding C18-json-control-char): a control character is
    written in Go's \x form, which the JSON decoder rejects *)
Example control_character_refuted :
  exists s, enc [] 3 FString (VStr [1]) = Some s /\ dec [] 3 FString s = None.
Proof. eexists. split; reflexivity. Qed.
