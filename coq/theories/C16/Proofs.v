From Goml Require Import Common.Base Pkg.Discover C16.Model.

Lemma mem_In x l : mem x l = true <-> In x l.
Proof.
  unfold mem. rewrite existsb_exists. split.
  - intros (y & Hy & E). apply N.eqb_eq in E. now subst.
  - intro H. exists x. split; [assumption|apply N.eqb_refl].
Qed.

Lemma insert_In a x l : In a (insert x l) <-> a = x \/ In a l.
Proof.
  induction l as [|y l IH]; cbn [insert].
  - cbn. intuition.
  - destruct (x <=? y); cbn [In]; [intuition|]. rewrite IH. intuition.
Qed.

Lemma isort_In a l : In a (isort l) <-> In a l.
Proof. induction l as [|x l IH]; cbn [isort]; [tauto|]. rewrite insert_In, IH. cbn. intuition. Qed.

(* ---------------- the DFS produces a dependency-respecting order ---------------- *)

Section Topo.
Variable g : graph.

(** orders built by appending a package only after all its imports *)
Inductive good : list N -> Prop :=
| good_nil : good []
| good_snoc l x ds : good l -> g_get g x = Some ds -> (forall d, In d ds -> In d l) -> ~ In x l -> good (l ++ [x]).

Lemma good_closed l : good l -> forall x ds d, In x l -> g_get g x = Some ds -> In d ds -> In d l.
Proof.
  induction 1 as [|l x ds G IH E C N]; intros y ds' d Hy E' Hd; [destruct Hy|].
  apply in_app_iff in Hy as [Hy|[<-|[]]]; apply in_app_iff; left.
  - eapply IH; eassumption.
  - rewrite E in E'. injection E' as <-. now apply C.
Qed.

Lemma good_no_mutual l : good l -> forall p q dp dq,
  In p l -> In q l -> p <> q -> g_get g p = Some dp -> g_get g q = Some dq -> In q dp -> In p dq -> False.
Proof.
  induction 1 as [|l x ds G IH E C N]; intros p q dp dq Hp Hq Npq Ep Eq Hqp Hpq; [destruct Hp|].
  apply in_app_iff in Hp as [Hp|[<-|[]]]; apply in_app_iff in Hq as [Hq|[<-|[]]].
  - exact (IH p q dp dq Hp Hq Npq Ep Eq Hqp Hpq).
  - (* q = x is new, p old: x in deps p, p in l => x in l *)
    apply N. exact (good_closed l G p dp x Hp Ep Hqp).
  - apply N. exact (good_closed l G q dq x Hq Eq Hpq).
  - congruence.
Qed.

Definition st_ok (temp : list N) (st : list N * list N) : Prop :=
  good (snd st) /\ (forall x, mem x (fst st) = true <-> In x (snd st)).

Lemma visit_spec fuel : forall n temp st st',
  st_ok temp st -> visit fuel g n temp st = TOk st' ->
  st_ok temp st' /\ In n (snd st') /\ (forall x, In x (snd st) -> In x (snd st')) /\
  (forall t, In t temp -> In t (snd st') -> In t (snd st)).
Proof.
  induction fuel as [|fuel IH]; intros n temp [perm order] st' [G P] E; cbn [visit] in E; [discriminate|].
  cbn [fst snd] in *.
  destruct (mem n perm) eqn:Mp.
  { injection E as <-. cbn [fst snd]. split; [split; assumption|]. split; [now apply P|]. split; auto. }
  destruct (mem n temp) eqn:Mt; [discriminate|].
  destruct (g_get g n) as [imports|] eqn:En; [|discriminate].
  (* the loop over the sorted imports *)
  match type of E with match ?A with _ => _ end = _ => destruct A as [[perm' order']|e] eqn:L end; [|discriminate].
  injection E as <-. cbn [fst snd].
  assert (LS : forall ds st0 st1,
     st_ok (n :: temp) st0 ->
     (fix go (ds : list N) (st : list N * list N) : tres (list N * list N) :=
        match ds with
        | [] => TOk st
        | d :: r => match g_get g d with
                    | None => TErr (TMissing d)
                    | Some _ => match visit fuel g d (n :: temp) st with TOk st' => go r st' | TErr e => TErr e end
                    end
        end) ds st0 = TOk st1 ->
     st_ok (n :: temp) st1 /\ (forall d, In d ds -> In d (snd st1)) /\ (forall x, In x (snd st0) -> In x (snd st1)) /\
     (forall t, In t (n :: temp) -> In t (snd st1) -> In t (snd st0))).
  { induction ds as [|d r IHr]; intros st0 st1 S0 E0.
    - injection E0 as <-. repeat split; auto; try apply S0. intros d [].
    - destruct (g_get g d); [|discriminate].
      destruct (visit fuel g d (n :: temp) st0) as [stm|] eqn:V; [|discriminate].
      destruct (IH d (n :: temp) st0 stm S0 V) as (Sm & Id & Mono & Tm).
      destruct (IHr stm st1 Sm E0) as (S1 & Ir & Mono1 & T1).
      repeat split; try apply S1.
      + intros d' [<-|Hd]; [now apply Mono1|now apply Ir].
      + intros x Hx. now apply Mono1, Mono.
      + intros t Ht H1. apply Tm; [assumption|]. now apply T1. }
  assert (S0 : st_ok (n :: temp) (perm, order)) by (split; assumption).
  destruct (LS (isort imports) (perm, order) (perm', order') S0 L) as ([G' P'] & Ids & Mono & Tm). cbn [fst snd] in *.
  assert (Nn : ~ In n order').
  { intro Hn. apply (Tm n (or_introl eq_refl)) in Hn. apply P in Hn. congruence. }
  repeat split.
  - eapply good_snoc; [exact G'|exact En| |exact Nn]. intros d Hd. apply Ids. now apply isort_In.
  - cbn [mem existsb]. intro Hx. apply orb_true_iff in Hx as [Hx|Hx].
    + apply N.eqb_eq in Hx. subst. apply in_app_iff. right. now left.
    + apply in_app_iff. left. now apply P'.
  - intro Hx. apply in_app_iff in Hx as [Hx|[<-|[]]]; cbn [mem existsb]; apply orb_true_iff.
    + right. now apply P'.
    + left. apply N.eqb_refl.
  - apply in_app_iff. right. now left.
  - intros x Hx. apply in_app_iff. left. now apply Mono.
  - intros t Ht Hin. apply in_app_iff in Hin as [Hin|[<-|[]]].
    + apply Tm; [now right|assumption].
    + exfalso. apply mem_In in Ht. congruence.
Qed.

Lemma topo_roots_spec fuel : forall names st st',
  st_ok [] st -> topo_roots fuel g names st = TOk st' ->
  st_ok [] st' /\ (forall x, In x (snd st) -> In x (snd st')) /\ (forall n, In n names -> In n (snd st')).
Proof.
  induction names as [|n r IH]; intros st st' S E; cbn [topo_roots] in E.
  - injection E as <-. split; [assumption|]. split; [auto|intros n []].
  - destruct (mem n (fst st)) eqn:M.
    + destruct (IH st st' S E) as (S' & Mono & I'). split; [assumption|]. split; [assumption|].
      intros x [<-|Hx]; [|now apply I']. apply Mono. now apply S.
    + destruct (visit fuel g n [] st) as [stm|] eqn:V; [|discriminate].
      destruct (visit_spec fuel n [] st stm S V) as (Sm & In_n & Mono & _).
      destruct (IH stm st' Sm E) as (S' & Mono' & I'). split; [assumption|].
      split; [intros x Hx; now apply Mono', Mono|].
      intros x [<-|Hx]; [now apply Mono'|now apply I'].
Qed.

Lemma topo_ok_good order : topo g = TOk order -> good order /\ forall n, In n (map fst g) -> In n order.
Proof.
  unfold topo. destruct (topo_roots (S (length g)) g (isort (map fst g)) ([], [])) as [[perm o]|] eqn:E; [|discriminate].
  intro H; injection H as <-.
  assert (S0 : st_ok [] ([], [])) by (split; [constructor|cbn; intuition discriminate]).
  destruct (topo_roots_spec _ _ _ _ S0 E) as ([G _] & _ & I). cbn in G. split; [assumption|].
  intros n Hn. apply I. now apply isort_In.
Qed.
End Topo.

Lemma g_get_in g n ds : g_get g n = Some ds -> In n (map fst g).
Proof.
  induction g as [|[k d] g IH]; cbn [g_get]; [discriminate|].
  destruct (N.eqb_spec k n) as [->|_]; cbn; [now left|]. intro H. right. now apply IH.
Qed.

(** an accepted dependency graph has no two packages importing each other *)
Lemma topo_ok_no_mutual g order : topo g = TOk order ->
  forall p q dp dq, p <> q -> g_get g p = Some dp -> g_get g q = Some dq -> In q dp -> In p dq -> False.
Proof.
  intros T p q dp dq N Ep Eq Hq Hp. destruct (topo_ok_good g order T) as [G I].
  eapply (good_no_mutual g order G p q dp dq); try eassumption; apply I; eapply g_get_in; eassumption.
Qed.

(** every import precedes its importer in the order *)
Lemma topo_respects_deps g order : topo g = TOk order -> good g order.
Proof. intro T. now destruct (topo_ok_good g order T). Qed.

(* ---------------- coherence ---------------- *)

Lemma tyref_eqb_eq a b : tyref_eqb a b = true -> a = b.
Proof.
  destruct a, b; cbn; try discriminate; intro H.
  - apply andb_true_iff in H as [H H3]. apply andb_true_iff in H as [H1 H2].
    apply N.eqb_eq in H1, H2, H3. now subst.
  - apply N.eqb_eq in H. now subst.
Qed.

Lemma no_dup_in_pkg_spec l : no_dup_in_pkg l = true ->
  forall i j l1 l2 l3, l = l1 ++ i :: l2 ++ j :: l3 -> im_pkg i = im_pkg j -> same_key i j = true -> False.
Proof.
  induction l as [|a l IH]; intros Hn i j l1 l2 l3 E Hp Hk.
  - destruct l1; discriminate.
  - cbn [no_dup_in_pkg] in Hn. apply andb_true_iff in Hn as [H1 H2].
    destruct l1 as [|b l1]; cbn in E; injection E as -> ->.
    + apply negb_true_iff in H1. assert (X : existsb (fun j0 => (im_pkg i =? im_pkg j0) && same_key i j0) (l2 ++ j :: l3) = true).
      { apply existsb_exists. exists j. split; [apply in_app_iff; right; now left|]. rewrite Hp, N.eqb_refl. exact Hk. }
      congruence.
    + eapply IH; [exact H2|reflexivity|exact Hp|exact Hk].
Qed.

(** COHERENCE: under the orphan rule, visibility, per-package uniqueness and the
    absence of mutual imports, no two distinct impl blocks anywhere in the project
    implement the same trait for the same type — the cross-package check can never
    be what decides *)
Lemma coherence imports l :
  impls_ok imports l = true -> no_mutual_import imports ->
  forall i j l1 l2 l3, l = l1 ++ i :: l2 ++ j :: l3 -> same_key i j = true -> False.
Proof.
  intros Hok NM i j l1 l2 l3 E K. unfold impls_ok in Hok.
  apply andb_true_iff in Hok as [Hok Hd]. apply andb_true_iff in Hok as [Ho Hv].
  rewrite forallb_forall in Ho, Hv.
  assert (Ii : In i l) by (subst; apply in_app_iff; right; now left).
  assert (Ij : In j l) by (subst; apply in_app_iff; right; right; apply in_app_iff; right; now left).
  destruct (N.eqb_spec (im_pkg i) (im_pkg j)) as [Ep|Np].
  { eapply no_dup_in_pkg_spec; eassumption. }
  pose proof (Ho i Ii) as Oi. pose proof (Ho j Ij) as Oj. pose proof (Hv i Ii) as Vi. pose proof (Hv j Ij) as Vj.
  unfold same_key in K. apply andb_true_iff in K as [K Kt]. apply andb_true_iff in K as [Ktp Ktn].
  apply N.eqb_eq in Ktp. apply tyref_eqb_eq in Kt.
  unfold orphan_ok, trait_local, type_local in Oi, Oj. rewrite <- Kt, <- Ktp in Oj.
  unfold impl_visible, allowed in Vi, Vj. rewrite <- Kt, <- Ktp in Vj.
  destruct (im_ty i) as [tp tn ta|k].
  - (* nominal type: one package owns the trait, the other the type *)
    apply andb_true_iff in Vi as [Vi1 Vi2], Vj as [Vj1 Vj2].
    apply orb_true_iff in Oi as [Oi|Oi], Oj as [Oj|Oj]; apply N.eqb_eq in Oi, Oj; try congruence.
    + (* i owns the trait, j owns the type: i imports tp = pkg j, j imports trait pkg = pkg i *)
      apply (NM (im_pkg i) (im_pkg j) Np).
      * rewrite Oj in Vi2. apply orb_true_iff in Vi2 as [X|X]; [apply N.eqb_eq in X; congruence|exact X].
      * rewrite Oi in Vj1. apply orb_true_iff in Vj1 as [X|X]; [apply N.eqb_eq in X; congruence|exact X].
    + apply (NM (im_pkg j) (im_pkg i)); [congruence| |].
      * rewrite Oi in Vj2. apply orb_true_iff in Vj2 as [X|X]; [apply N.eqb_eq in X; congruence|exact X].
      * rewrite Oj in Vi1. apply orb_true_iff in Vi1 as [X|X]; [apply N.eqb_eq in X; congruence|exact X].
  - (* non-nominal type: both must own the trait *)
    rewrite orb_false_r in Oi, Oj. apply N.eqb_eq in Oi, Oj. congruence.
Qed.
