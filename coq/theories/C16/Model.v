(** C16 model: package isolation and trait coherence over abstract items.
    - visibility: name_resolution.rs package_allowed;
    - orphan rule and per-package duplicates: typer/toplevel.rs is_local_name,
      is_local_nominal_type, define_trait_impl;
    - cross-package duplicate check: pipeline.rs typecheck_packages / separate.rs
      link_cores ("defined in multiple packages");
    - import cycles: Pkg/Discover.v topo. *)
From Goml Require Import Common.Base Pkg.Discover.

(** a type as the orphan rule sees it *)
Inductive tyref :=
| TNominal (pkg name : N) (nargs : N)   (* struct/enum, possibly applied to arguments *)
| TOther (k : N).                       (* primitives, tuples, arrays, Vec, Ref, functions, dyn *)

Record implr := { im_pkg : N; im_trait_pkg : N; im_trait : N; im_ty : tyref }.

Definition tyref_eqb (a b : tyref) : bool :=
  match a, b with
  | TNominal p n k, TNominal p' n' k' => (p =? p') && (n =? n') && (k =? k')
  | TOther k, TOther k' => k =? k'
  | _, _ => false
  end.

Definition same_key (a b : implr) : bool :=
  (im_trait_pkg a =? im_trait_pkg b) && (im_trait a =? im_trait b) && tyref_eqb (im_ty a) (im_ty b).

(** [is_local_name]: a name is local iff its package qualifier is the current package *)
Definition trait_local (i : implr) : bool := im_trait_pkg i =? im_pkg i.
(** [is_local_nominal_type]: only struct/enum (applied or not) can be local *)
Definition type_local (i : implr) : bool :=
  match im_ty i with TNominal p _ _ => p =? im_pkg i | TOther _ => false end.

Definition orphan_ok (i : implr) : bool := trait_local i || type_local i.

(** [package_allowed] *)
Definition allowed (imports : N -> list N) (cur p : N) : bool := (p =? cur) || mem p (imports cur).

Definition impl_visible (imports : N -> list N) (i : implr) : bool :=
  allowed imports (im_pkg i) (im_trait_pkg i) &&
  match im_ty i with TNominal p _ _ => allowed imports (im_pkg i) p | TOther _ => true end.

Fixpoint no_dup_in_pkg (l : list implr) : bool :=
  match l with
  | [] => true
  | i :: r => negb (existsb (fun j => (im_pkg i =? im_pkg j) && same_key i j) r) && no_dup_in_pkg r
  end.

Fixpoint no_dup_across (l : list implr) : bool :=
  match l with
  | [] => true
  | i :: r => negb (existsb (fun j => same_key i j) r) && no_dup_across r
  end.

(** acceptance without the cross-package backstop *)
Definition impls_ok (imports : N -> list N) (l : list implr) : bool :=
  forallb orphan_ok l && forallb (impl_visible imports) l && no_dup_in_pkg l.

Definition no_mutual_import (imports : N -> list N) : Prop :=
  forall p q, p <> q -> mem q (imports p) = true -> mem p (imports q) = true -> False.
