(** C16 — property theorems only *)
From Goml Require Import Common.Base Pkg.Discover C16.Model C16.Proofs.

Definition imports_of (g : graph) (p : N) : list N := match g_get g p with Some d => d | None => [] end.

(** an accepted import graph orders every package after all of its imports *)
Theorem topo_respects_deps : forall g order, topo g = TOk order -> good g order.
Proof. exact Proofs.topo_respects_deps. Qed.

Theorem topo_covers_all_packages : forall g order, topo g = TOk order -> forall n, In n (map fst g) -> In n order.
Proof. intros g order T. now destruct (topo_ok_good g order T). Qed.

(** import cycles of length two are rejected (the case coherence rests on) *)
Theorem mutual_import_rejected : forall g order, topo g = TOk order -> no_mutual_import (imports_of g).
Proof.
  intros g order T p q Npq Hq Hp. unfold imports_of in *.
  destruct (g_get g p) as [dp|] eqn:Ep; [|discriminate]. destruct (g_get g q) as [dq|] eqn:Eq; [|discriminate].
  apply (topo_ok_no_mutual g order T p q dp dq Npq Ep Eq); now apply mem_In.
Qed.

(** COHERENCE: in an accepted project (acyclic imports, orphan rule, visibility,
    per-package uniqueness) at most one impl exists per (trait, type) pair, whatever
    packages are loaded and in whatever order *)
Theorem at_most_one_impl_per_trait_and_type : forall g order l,
  topo g = TOk order -> impls_ok (imports_of g) l = true ->
  forall i j l1 l2 l3, l = l1 ++ i :: l2 ++ j :: l3 -> same_key i j = true -> False.
Proof.
  intros g order l T Hok. apply (coherence (imports_of g) l Hok). exact (mutual_import_rejected g order T).
Qed.

(** an impl of a foreign trait for a non-nominal type (Vec, Ref, tuples, primitives)
    is an orphan in every package *)
Theorem foreign_trait_for_builtin_type_is_orphan : forall i k,
  im_ty i = TOther k -> im_trait_pkg i <> im_pkg i -> orphan_ok i = false.
Proof.
  intros i k E N. unfold orphan_ok, trait_local, type_local. rewrite E.
  destruct (N.eqb_spec (im_trait_pkg i) (im_pkg i)); [contradiction|reflexivity].
Qed.

Example coherence_nonvacuous :
  topo [(0, [1]); (1, [])] = TOk [1; 0] /\
  impls_ok (imports_of [(0, [1]); (1, [])])
    [ {| im_pkg := 0; im_trait_pkg := 1; im_trait := 7; im_ty := TNominal 0 3 0 |};
      {| im_pkg := 1; im_trait_pkg := 1; im_trait := 7; im_ty := TOther 2 |} ] = true.
Proof. vm_compute. split; reflexivity. Qed.
