(** Go's treatment of operations on literals (the Go specification, "Constant expressions"): an arithmetic
    operation on two literals is evaluated exactly at compile time and the program is invalid when the exact result
    does not fit the type; a zero literal divisor is invalid whatever the dividend; literals without a fraction
    divide as integers even where a float is expected. Used by the Go semantics and by the Go checker model. *)
From Goml Require Import Common.Base Sem.GoAst.
Open Scope Z_scope.

Fixpoint parse_digits (s : str) (acc : Z) : option Z :=
  match s with
  | [] => Some acc
  | c :: r => if is_digit c then parse_digits r (10 * acc + (Z.of_N c - 48)) else None
  end.
Definition parse_int (s : str) : option Z :=
  match s with
  | 45%N :: r => match r with [] => None | _ => option_map Z.opp (parse_digits r 0) end
  | [] => None
  | _ => parse_digits s 0
  end.

Definition int_info (t : gty) : option (Z * bool) :=
  match t with
  | GInt8 => Some (8, true) | GInt16 => Some (16, true) | GInt32 => Some (32, true) | GInt64 => Some (64, true)
  | GUint8 => Some (8, false) | GUint16 => Some (16, false) | GUint32 => Some (32, false) | GUint64 => Some (64, false)
  | _ => None
  end.

Definition wrap (bits : Z) (sgn : bool) (z : Z) : Z :=
  if sgn then (z + 2 ^ (bits - 1)) mod 2 ^ bits - 2 ^ (bits - 1) else z mod 2 ^ bits.

Definition wrap_ty (t : gty) (z : Z) : Z :=
  match int_info t with Some (b, s) => wrap b s z | None => z end.

Definition lit_int (e : expr) : option Z := match e with EInt tx _ | EFloat tx _ => parse_int tx | _ => None end.

(** Some code: why Go rejects (30 constant overflows the type, 31 division by a zero constant) or silently means
    something else (32 integer division of two constants at a float type) *)
Definition const_violation (op : binop) (l r : expr) (t : gty) : option N :=
  match op with
  | BAdd | BSub | BMul | BDiv =>
      match op, lit_int r with
      | BDiv, Some 0 => Some 31%N
      | _, _ =>
          match lit_int l, lit_int r with
          | Some x, Some y =>
              match int_info t with
              | Some _ =>
                  let z := match op with BAdd => x + y | BSub => x - y | BMul => x * y | _ => Z.quot x y end in
                  if wrap_ty t z =? z then None else Some 30%N
              | None => match op with BDiv => if Z.rem x y =? 0 then None else Some 32%N | _ => None end
              end
          | _, _ => None
          end
      end
  | _ => None
  end.
