(** Executable semantics of the emitted Go subset (a model of Go, the language the
    output is written in): fuelled big-step interpreter producing the bytes written
    to standard output and how the program ends.
    Deliberate simplifications (named in the trusted base):
    - a slice is a window (address, length, capacity) onto a heap array and [append] writes in place while the
      capacity lasts (so two appends to one slice value alias, as in Go); the growth policy is doubling, where the
      Go runtime also rounds up to allocation size classes;
    - floats are not evaluated (a program that computes with floats is Unsupported);
    - [go f()] runs the call to completion at the spawn point (one schedule);
    - only the predeclared functions and fmt verbs the runtime uses are modelled. *)
From Goml Require Import Common.Base Sem.GoAst.
From Goml Require Export Sem.GoConst.
Open Scope Z_scope.

Inductive val :=
| VUnit
| VBool (b : bool)
| VInt (z : Z)
| VStr (s : str)
| VStruct (tname : str) (fields : list (str * val))
| VPtr (addr : nat)
| VNil
| VFunc (name : str)
| VSeq (elems : list val)        (* arrays (values) *)
| VSlice (addr len cap : nat)    (* slices: a window onto the heap array at addr *)
| VFloat (text : str).           (* carried, never computed with *)

Inductive res (A : Type) :=
| Ok (a : A)
| Panic (msg : str) (sofar : list str)   (* run-time failure: the program stops here; output so far *)
| Stuck (why : N)                 (* ill-typed / not Go / outside the model *)
| Unsupported (what : N)
| Fuel.
Arguments Ok {A}. Arguments Panic {A}. Arguments Stuck {A}. Arguments Unsupported {A}. Arguments Fuel {A}.

Inductive signal := SNormal | SBreakSig | SReturnSig (v : val).

Record state := { heap : list val; out : list str (* chunks, newest first *) }.

Definition env := list (str * val).

Fixpoint lookup (x : str) (e : env) : option val :=
  match e with [] => None | (y, v) :: r => if list_eqb x y then Some v else lookup x r end.

Fixpoint update (x : str) (v : val) (e : env) : option env :=
  match e with
  | [] => None
  | (y, w) :: r => if list_eqb x y then Some ((y, v) :: r)
                   else match update x v r with Some r' => Some ((y, w) :: r') | None => None end
  end.

Fixpoint drop_to (n : nat) (e : env) : env :=
  if (length e <=? n)%nat then e else match e with [] => [] | _ :: r => drop_to n r end.

Fixpoint set_nth (l : list val) (i : nat) (v : val) : option (list val) :=
  match l, i with
  | [], _ => None
  | _ :: r, O => Some (v :: r)
  | x :: r, S i' => match set_nth r i' v with Some r' => Some (x :: r') | None => None end
  end.

Fixpoint set_field (fs : list (str * val)) (f : str) (v : val) : option (list (str * val)) :=
  match fs with
  | [] => None
  | (g, w) :: r => if list_eqb f g then Some ((g, v) :: r)
                   else match set_field r f v with Some r' => Some ((g, w) :: r') | None => None end
  end.

Fixpoint find_fn (fs : list fn) (name : str) : option fn :=
  match fs with [] => None | f :: r => if list_eqb (f_name f) name then Some f else find_fn r name end.

(* ---- integer types ---- *)
Definition z_to_str (z : Z) : str :=
  if z <? 0 then 45%N :: dec (Z.to_N (- z)) else dec (Z.to_N z).

(* ---- strings ---- *)
Fixpoint str_ltb (a b : str) : bool :=
  match a, b with
  | _, [] => false
  | [], _ :: _ => true
  | x :: a', y :: b' => if (x <? y)%N then true else if (y <? x)%N then false else str_ltb a' b'
  end.

Definition hexd (d : N) : N := if (d <? 10)%N then (48 + d)%N else (87 + d)%N.

(** strconv.Quote on bytes that are printable ASCII or have a short escape; anything
    else (other control bytes, DEL, bytes >= 0x80) is outside the model *)
Fixpoint quote_body (s : str) : option str :=
  match s with
  | [] => Some []
  | c :: r =>
      match quote_body r with
      | None => None
      | Some q =>
          if (c =? 34)%N then Some (92 :: 34 :: q)%N
          else if (c =? 92)%N then Some (92 :: 92 :: q)%N
          else if (c =? 10)%N then Some (92 :: 110 :: q)%N
          else if (c =? 13)%N then Some (92 :: 114 :: q)%N
          else if (c =? 9)%N then Some (92 :: 116 :: q)%N
          else if (c =? 7)%N then Some (92 :: 97 :: q)%N
          else if (c =? 8)%N then Some (92 :: 98 :: q)%N
          else if (c =? 12)%N then Some (92 :: 102 :: q)%N
          else if (c =? 11)%N then Some (92 :: 118 :: q)%N
          else if (c <? 32)%N then Some ([92; 120; hexd (c / 16); hexd (c mod 16)] ++ q)%N
          else if (c =? 127)%N then Some ([92; 120; 55; 102] ++ q)%N
          else if (c <? 127)%N then Some (c :: q)
          else None
      end
  end.

(** fmt.Sprintf with exactly one verb among %d %q %v %s; the text after the verb is literal *)
Definition sprintf_piece (v : N) (arg : val) : res str :=
  if (v =? 100)%N then match arg with VInt z => Ok (z_to_str z) | _ => Unsupported 1 end
  else if (v =? 113)%N then match arg with VStr s => match quote_body s with Some q => Ok ([34%N] ++ q ++ [34%N]) | None => Unsupported 2 end | _ => Unsupported 1 end
  else if ((v =? 118) || (v =? 115))%N then
    match arg with VStr s => Ok s | VInt z => Ok (z_to_str z) | VBool true => Ok [116;114;117;101]%N | VBool false => Ok [102;97;108;115;101]%N | _ => Unsupported 1 end
  else Unsupported 3.

Fixpoint sprintf (f : str) (arg : val) : res str :=
  match f with
  | [] => Ok []
  | 37%N :: v :: r => match sprintf_piece v arg with Ok p => Ok (p ++ r) | e => e end
  | c :: r => match sprintf r arg with Ok p => Ok (c :: p) | e => e end
  end.

Definition s_fmt_sprintf : str := [102;109;116;46;83;112;114;105;110;116;102]%N.
Definition s_fmt_println : str := [102;109;116;46;80;114;105;110;116;108;110]%N.
Definition s_fmt_print : str := [102;109;116;46;80;114;105;110;116]%N.
Definition s_println : str := [112;114;105;110;116;108;110]%N.
Definition s_panic : str := [112;97;110;105;99]%N.
Definition s_len : str := [108;101;110]%N.
Definition s_append : str := [97;112;112;101;110;100]%N.
Definition s_string : str := [115;116;114;105;110;103]%N.
Definition s_main : str := [109;97;105;110]%N.
Definition s_blank : str := [95]%N.
Definition cast_names : list (str * gty) :=
  [([105;110;116;56]%N, GInt8); ([105;110;116;49;54]%N, GInt16); ([105;110;116;51;50]%N, GInt32); ([105;110;116;54;52]%N, GInt64);
   ([117;105;110;116;56]%N, GUint8); ([117;105;110;116;49;54]%N, GUint16); ([117;105;110;116;51;50]%N, GUint32); ([117;105;110;116;54;52]%N, GUint64)].

Fixpoint assoc_str {A} (l : list (str * A)) (k : str) : option A :=
  match l with [] => None | (x, a) :: r => if list_eqb x k then Some a else assoc_str r k end.

Fixpoint val_eqb (a b : val) : option bool :=
  match a, b with
  | VUnit, VUnit => Some true
  | VBool x, VBool y => Some (Bool.eqb x y)
  | VInt x, VInt y => Some (x =? y)
  | VStr x, VStr y => Some (list_eqb x y)
  | _, _ => None
  end.

Definition type_name_of (t : gty) : option str :=
  match t with GName n => Some n | GStruct n _ => Some n | _ => None end.

Definition zero_val (t : gty) : val :=
  match t with
  | GUnit => VUnit | GBool => VBool false | GString => VStr []
  | GInt8 | GInt16 | GInt32 | GInt64 | GUint8 | GUint16 | GUint32 | GUint64 => VInt 0
  | GFloat32 | GFloat64 => VFloat [48%N]
  | _ => VNil
  end.

Notation "'bind' x <- a ; b" := (match a with Ok x => b | Panic m o => Panic m o | Stuck w => Stuck w | Unsupported w => Unsupported w | Fuel => Fuel end)
  (at level 200, x pattern, a at level 100, b at level 200).

Definition builtin (name : str) (args : list val) (t : gty) (s : state) : res (val * state) :=
  let emit := fun (b : str) => {| heap := heap s; out := b :: out s |} in
  if list_eqb name s_fmt_sprintf then
    match args with
    | [VStr f; a] => bind r <- sprintf f a; Ok (VStr r, s)
    | _ => Stuck 30
    end
  else if list_eqb name s_fmt_println then
    match args with [VStr x] => Ok (VUnit, emit (x ++ [10%N])) | _ => Stuck 31 end
  else if list_eqb name s_fmt_print then
    match args with [VStr x] => Ok (VUnit, emit x) | _ => Stuck 31 end
  else if list_eqb name s_println then Ok (VUnit, s)           (* builtin println writes to stderr *)
  else if list_eqb name s_panic then
    match args with [VStr m] => Panic m (out s) | _ => Panic [] (out s) end
  else if list_eqb name s_len then
    match args with
    | [VStr x] => Ok (VInt (Z.of_nat (length x)), s)
    | [VSeq l] => Ok (VInt (Z.of_nat (length l)), s)
    | [VSlice _ l _] => Ok (VInt (Z.of_nat l), s)
    | [VNil] => Ok (VInt 0, s)
    | _ => Stuck 32
    end
  else if list_eqb name s_append then
    (* Go: "if the capacity is not large enough append allocates a new array, otherwise it re-uses the underlying array" *)
    let fresh := fun (old : list val) (more : list val) (c : nat) =>
      let need := (length old + length more)%nat in
      let newcap := Nat.max need (2 * c) in
      Ok (VSlice (length (heap s)) need newcap,
          {| heap := heap s ++ [VSeq (old ++ more ++ repeat VNil (newcap - need))]; out := out s |}) in
    match args with
    | VSeq l :: more => Ok (VSeq (l ++ more), s)
    | VNil :: more => match more with [] => Ok (VNil, s) | _ => fresh [] more 0%nat end
    | VSlice a l c :: more =>
        match nth_error (heap s) a with
        | Some (VSeq cells) =>
            if (l + length more <=? c)%nat then
              let cells' := firstn l cells ++ more ++ skipn (l + length more) cells in
              match set_nth (heap s) a (VSeq cells') with
              | Some h => Ok (VSlice a (l + length more) c, {| heap := h; out := out s |})
              | None => Stuck 33
              end
            else fresh (firstn l cells) more c
        | _ => Stuck 33
        end
    | _ => Stuck 33
    end
  else if list_eqb name s_string then
    match args with
    | [VStr x] => Ok (VStr x, s)
    | [VSeq l] => Ok (VStr (map (fun v => match v with VInt z => Z.to_N z | _ => 63%N end) l), s)
    | [VInt z] => if (0 <=? z) && (z <? 128) then Ok (VStr [Z.to_N z], s) else Unsupported 34
    | _ => Stuck 34
    end
  else if list_eqb name [97; 110; 121]%N then      (* any(x): conversion to the empty interface keeps the value *)
    match args with [v] => Ok (v, s) | _ => Stuck 36 end
  else match assoc_str cast_names name, args with
       | Some ct, [VInt z] => Ok (VInt (wrap_ty ct z), s)
       | Some _, [VFloat _] => Unsupported 11
       | _, _ => Stuck 35
       end.

Section Interp.
Variable fns : list fn.
(** interface name -> its methods; struct name -> the methods declared on it *)
Variable ifaces : list (str * list str).
Variable smethods : list (str * list str).

(** x.(T): for an interface type T the dynamic type must have T's methods; for a struct type it must be T *)
Definition assert_ok (dyn : str) (target : str) : bool :=
  match assoc_str ifaces target with
  | Some ms =>
      let have := match assoc_str smethods dyn with Some l => l | None => [] end in
      forallb (fun m => existsb (list_eqb m) have) ms
  | None => list_eqb dyn target
  end.

Definition binop_val (op : binop) (t : gty) (a b : val) : res val :=
  match op, a, b with
  | BAdd, VInt x, VInt y => Ok (VInt (wrap_ty t (x + y)))
  | BSub, VInt x, VInt y => Ok (VInt (wrap_ty t (x - y)))
  | BMul, VInt x, VInt y => Ok (VInt (wrap_ty t (x * y)))
  | BDiv, VInt x, VInt y => if y =? 0 then Panic [100;105;118;105;100;101;32;98;121;32;122;101;114;111]%N [] (* divide by zero *)
                            else Ok (VInt (wrap_ty t (Z.quot x y)))
  | BAdd, VStr x, VStr y => Ok (VStr (x ++ y))
  | BLess, VInt x, VInt y => Ok (VBool (x <? y))
  | BGreater, VInt x, VInt y => Ok (VBool (y <? x))
  | BLessEq, VInt x, VInt y => Ok (VBool (x <=? y))
  | BGreaterEq, VInt x, VInt y => Ok (VBool (y <=? x))
  | BLess, VStr x, VStr y => Ok (VBool (str_ltb x y))
  | BGreater, VStr x, VStr y => Ok (VBool (str_ltb y x))
  | BLessEq, VStr x, VStr y => Ok (VBool (negb (str_ltb y x)))
  | BGreaterEq, VStr x, VStr y => Ok (VBool (negb (str_ltb x y)))
  | BEq, _, _ => match val_eqb a b with Some r => Ok (VBool r) | None => Unsupported 10 end
  | BNotEq, _, _ => match val_eqb a b with Some r => Ok (VBool (negb r)) | None => Unsupported 10 end
  | BAnd, VBool x, VBool y => Ok (VBool (x && y))
  | BOr, VBool x, VBool y => Ok (VBool (x || y))
  | _, VFloat _, _ | _, _, VFloat _ => Unsupported 11
  | _, _, _ => Stuck 20
  end.

(** evaluation returns the value, the new state and the (possibly updated) environment;
    expressions do not change the environment except through nested blocks, which
    restore it *)
Fixpoint eval (fuel : nat) (e : expr) (rho : env) (s : state) {struct fuel} : res (val * state) :=
  match fuel with
  | O => Fuel
  | S fuel =>
    let eval_list :=
      (fix go (es : list expr) (s : state) : res (list val * state) :=
         match es with
         | [] => Ok ([], s)
         | x :: r => bind (v, s1) <- eval fuel x rho s; bind (vs, s2) <- go r s1; Ok (v :: vs, s2)
         end) in
    match e with
    | ENil _ => Ok (VNil, s)
    | EVoid _ => Ok (VUnit, s)
    | EUnit _ => Ok (VUnit, s)
    | EVar x _ =>
        match lookup x rho with
        | Some v => Ok (v, s)
        | None => match find_fn fns x with Some _ => Ok (VFunc x, s) | None => Stuck 1 end
        end
    | EBool b _ => Ok (VBool b, s)
    | EInt t ty => match parse_int t with Some z => Ok (VInt z, s) | None => Stuck 2 end
    | EFloat t _ => Ok (VFloat t, s)
    | EString x _ => Ok (VStr x, s)
    | EUnary UAddrOf (EStructLit fs t) _ =>
        bind (v, s1) <- eval fuel (EStructLit fs t) rho s;
        Ok (VPtr (length (heap s1)), {| heap := heap s1 ++ [v]; out := out s1 |})
    | EUnary op x t =>
        bind (v, s1) <- eval fuel x rho s;
        match op, v with
        | UNeg, VInt z => Ok (VInt (wrap_ty t (- z)), s1)
        | UNot, VBool b => Ok (VBool (negb b), s1)
        | UDeref, VPtr a => match nth_error (heap s1) a with Some w => Ok (w, s1) | None => Stuck 3 end
        | UDeref, VNil => Panic [110;105;108]%N (out s1)
        | _, VFloat _ => Unsupported 11
        | _, _ => Stuck 4
        end
    | EBinary op l r t =>
        match const_violation op l r t with Some w => Stuck w | None =>
        bind (a, s1) <- eval fuel l rho s;
        bind (b, s2) <- eval fuel r rho s1;
        match binop_val op (match int_info t with Some _ => t | None => match l with EVar _ lt => lt | _ => t end end) a b with
        | Ok v => Ok (v, s2)
        | Panic m _ => Panic m (out s2)
        | Stuck w => Stuck w | Unsupported w => Unsupported w | Fuel => Fuel
        end end
    | EField obj f _ =>
        bind (v, s1) <- eval fuel obj rho s;
        let get := fun fs => match assoc_str fs f with Some w => Ok (w, s1) | None => Stuck 5 end in
        match v with
        | VStruct _ fs => get fs
        | VPtr a => match nth_error (heap s1) a with Some (VStruct _ fs) => get fs | _ => Stuck 5 end
        | VNil => Panic [110;105;108]%N (out s1)
        | _ => Stuck 5
        end
    | EIndex a i _ =>
        bind (va, s1) <- eval fuel a rho s;
        bind (vi, s2) <- eval fuel i rho s1;
        match va, vi with
        | VSeq l, VInt z =>
            if (z <? 0) || (Z.of_nat (length l) <=? z) then Panic [105;110;100;101;120]%N (out s2) (* index out of range *)
            else match nth_error l (Z.to_nat z) with Some w => Ok (w, s2) | None => Stuck 6 end
        | VNil, VInt _ => Panic [105;110;100;101;120]%N (out s2)
        | VSlice ad l _, VInt z =>
            if (z <? 0) || (Z.of_nat l <=? z) then Panic [105;110;100;101;120]%N (out s2)
            else match nth_error (heap s2) ad with
                 | Some (VSeq cells) => match nth_error cells (Z.to_nat z) with Some w => Ok (w, s2) | None => Stuck 6 end
                 | _ => Stuck 6
                 end
        | VStr b, VInt z =>
            if (z <? 0) || (Z.of_nat (length b) <=? z) then Panic [105;110;100;101;120]%N (out s2)
            else match nth_error b (Z.to_nat z) with Some c => Ok (VInt (Z.of_N c), s2) | None => Stuck 6 end
        | _, _ => Stuck 6
        end
    | ECast x t =>
        bind (v, s1) <- eval fuel x rho s;
        match v, type_name_of t with
        | VStruct n _, Some m => if assert_ok n m then Ok (v, s1) else Panic [97;115;115;101;114;116]%N (out s1)
        | _, _ => Ok (v, s1)      (* assertion to a non-struct type: the value is unchanged *)
        end
    | EStructLit fs t =>
        bind (vs, s1) <- eval_list (map snd fs) s;
        match type_name_of t with
        | Some n => Ok (VStruct n (combine (map fst fs) vs), s1)
        | None => Stuck 7
        end
    | EArrayLit es _ => bind (vs, s1) <- eval_list es s; Ok (VSeq vs, s1)
    | EBlock ss oe _ =>
        bind (sg, rho1, s1) <- exec_block fuel ss rho s;
        match sg with
        | SNormal => match oe with Some x => eval fuel x rho1 s1 | None => Ok (VUnit, s1) end
        | _ => Stuck 8
        end
    | ECall f args t =>
        bind (vs, s1) <- eval_list args s;
        match f with
        | EVar name _ =>
            match lookup name rho with
            | Some (VFunc g) => call fuel g vs s1
            | Some _ => Stuck 9
            | None =>
                match find_fn fns name with
                | Some _ => call fuel name vs s1
                | None => builtin name vs t s1
                end
            end
        | _ =>
            bind (fv, s2) <- eval fuel f rho s1;
            match fv with VFunc g => call fuel g vs s2 | VNil => Panic [110;105;108]%N (out s2) | _ => Stuck 9 end
        end
    end
  end
with call (fuel : nat) (name : str) (args : list val) (s : state) {struct fuel} : res (val * state) :=
  match fuel with
  | O => Fuel
  | S fuel =>
    match find_fn fns name with
    | None => Stuck 10
    | Some f =>
        if negb (length args =? length (f_params f))%nat then Stuck 11
        else
          bind (sg, _, s1) <- exec_block fuel (f_body f) (combine (map fst (f_params f)) args) s;
          match sg with
          | SReturnSig v => Ok (v, s1)
          | SNormal => Ok (VUnit, s1)
          | SBreakSig => Stuck 12
          end
    end
  end
with exec_block (fuel : nat) (ss : list stmt) (rho : env) (s : state) {struct fuel} : res (signal * env * state) :=
  match fuel with
  | O => Fuel
  | S fuel =>
    match ss with
    | [] => Ok (SNormal, rho, s)
    | st :: r =>
        bind (sg, rho1, s1) <- exec fuel st rho s;
        match sg with
        | SNormal => exec_block fuel r rho1 s1
        | _ => Ok (sg, rho1, s1)
        end
    end
  end
with exec (fuel : nat) (st : stmt) (rho : env) (s : state) {struct fuel} : res (signal * env * state) :=
  match fuel with
  | O => Fuel
  | S fuel =>
    let scoped := fun (ss : list stmt) =>
      bind (sg, rho1, s1) <- exec_block fuel ss rho s; Ok (sg, drop_to (length rho) rho1, s1) in
    match st with
    | SExpr e => bind (_, s1) <- eval fuel e rho s; Ok (SNormal, rho, s1)
    | SGo c => bind (_, s1) <- eval fuel c rho s; Ok (SNormal, rho, s1)
    | SVarDecl x t None => Ok (SNormal, (x, zero_val t) :: rho, s)
    | SVarDecl x t (Some e) => bind (v, s1) <- eval fuel e rho s; Ok (SNormal, (x, v) :: rho, s1)
    | SAssign x e =>
        bind (v, s1) <- eval fuel e rho s;
        if list_eqb x s_blank then Ok (SNormal, rho, s1)
        else match update x v rho with Some rho1 => Ok (SNormal, rho1, s1) | None => Stuck 13 end
    | SFieldAssign (EField obj f _) e =>
        bind (o, s1) <- eval fuel obj rho s;
        bind (v, s2) <- eval fuel e rho s1;
        match o with
        | VPtr a =>
            match nth_error (heap s2) a with
            | Some (VStruct n fs) =>
                match set_field fs f v with
                | Some fs' => match set_nth (heap s2) a (VStruct n fs') with
                              | Some h => Ok (SNormal, rho, {| heap := h; out := out s2 |}) | None => Stuck 14 end
                | None => Stuck 14
                end
            | _ => Stuck 14
            end
        | VNil => Panic [110;105;108]%N (out s2)
        | _ => Unsupported 14
        end
    | SFieldAssign _ _ => Unsupported 14
    | SPointerAssign p e =>
        bind (pv, s1) <- eval fuel p rho s;
        bind (v, s2) <- eval fuel e rho s1;
        match pv with
        | VPtr a => match set_nth (heap s2) a v with Some h => Ok (SNormal, rho, {| heap := h; out := out s2 |}) | None => Stuck 15 end
        | VNil => Panic [110;105;108]%N (out s2)
        | _ => Stuck 15
        end
    | SIndexAssign (EVar x _) i e =>
        bind (vi, s1) <- eval fuel i rho s;
        bind (v, s2) <- eval fuel e rho s1;
        match lookup x rho, vi with
        | Some (VSeq l), VInt z =>
            if (z <? 0) || (Z.of_nat (length l) <=? z) then Panic [105;110;100;101;120]%N (out s2)
            else match set_nth l (Z.to_nat z) v with
                 | Some l' => match update x (VSeq l') rho with Some rho1 => Ok (SNormal, rho1, s2) | None => Stuck 16 end
                 | None => Stuck 16
                 end
        | _, _ => Stuck 16
        end
    | SIndexAssign _ _ _ => Unsupported 16
    | SReturn None => Ok (SReturnSig VUnit, rho, s)
    | SReturn (Some e) => bind (v, s1) <- eval fuel e rho s; Ok (SReturnSig v, rho, s1)
    | SIf c th el =>
        bind (cv, s1) <- eval fuel c rho s;
        match cv with
        | VBool true => bind (sg, rho1, s2) <- exec_block fuel th rho s1; Ok (sg, drop_to (length rho) rho1, s2)
        | VBool false =>
            match el with
            | Some b => bind (sg, rho1, s2) <- exec_block fuel b rho s1; Ok (sg, drop_to (length rho) rho1, s2)
            | None => Ok (SNormal, rho, s1)
            end
        | _ => Stuck 17
        end
    | SLoop body =>
        bind (sg, rho1, s1) <- exec_block fuel body rho s;
        let rho2 := drop_to (length rho) rho1 in
        match sg with
        | SNormal => exec fuel (SLoop body) rho2 s1
        | SBreakSig => Ok (SNormal, rho2, s1)
        | SReturnSig v => Ok (SReturnSig v, rho2, s1)
        end
    | SBreak => Ok (SBreakSig, rho, s)
    | SSwitchExpr e cases default =>
        bind (v, s1) <- eval fuel e rho s;
        (fix go (cs : list (expr * list stmt)) (s1 : state) : res (signal * env * state) :=
           match cs with
           | [] => match default with
                   | Some b => bind (sg, rho1, s2) <- exec_block fuel b rho s1;
                               Ok (match sg with SBreakSig => SNormal | x => x end, drop_to (length rho) rho1, s2)
                   | None => Ok (SNormal, rho, s1)
                   end
           | (c, b) :: r =>
               bind (cv, s2) <- eval fuel c rho s1;
               match val_eqb v cv with
               | Some true => bind (sg, rho1, s3) <- exec_block fuel b rho s2;
                              Ok (match sg with SBreakSig => SNormal | x => x end, drop_to (length rho) rho1, s3)
               | Some false => go r s2
               | None => Stuck 18
               end
           end) cases s1
    | SSwitchType bnd e cases default =>
        bind (v, s1) <- eval fuel e rho s;
        let rho_b := match bnd with Some x => (x, v) :: rho | None => rho end in
        match v with
        | VStruct n _ =>
            (fix go (cs : list (gty * list stmt)) : res (signal * env * state) :=
               match cs with
               | [] => match default with
                       | Some b => bind (sg, rho1, s2) <- exec_block fuel b rho_b s1;
                                   Ok (match sg with SBreakSig => SNormal | x => x end, drop_to (length rho) rho1, s2)
                       | None => Ok (SNormal, rho, s1)
                       end
               | (t, b) :: r =>
                   match type_name_of t with
                   | Some m => if assert_ok n m
                               then bind (sg, rho1, s2) <- exec_block fuel b rho_b s1;
                                    Ok (match sg with SBreakSig => SNormal | x => x end, drop_to (length rho) rho1, s2)
                               else go r
                   | None => Stuck 19
                   end
               end) cases
        | VNil => match default with
                  | Some b => bind (sg, rho1, s2) <- exec_block fuel b rho_b s1;
                              Ok (match sg with SBreakSig => SNormal | x => x end, drop_to (length rho) rho1, s2)
                  | None => Ok (SNormal, rho, s1)
                  end
        | _ => Stuck 19
        end
    end
  end.
End Interp.

Fixpoint fns_of (f : file) : list fn :=
  match f with [] => [] | IFn x :: r => x :: fns_of r | _ :: r => fns_of r end.
Fixpoint ifaces_of (f : file) : list (str * list str) :=
  match f with [] => [] | IInterface n ms :: r => (n, ms) :: ifaces_of r | _ :: r => ifaces_of r end.
Fixpoint smethods_of (f : file) : list (str * list str) :=
  match f with [] => [] | IStruct n _ ms :: r => (n, map snd ms) :: smethods_of r | _ :: r => smethods_of r end.

Inductive ending := EExit | EPanic (msg : str) | EStuck (why : N) | EUnsupported (what : N) | EFuel.

(** run [main]: the bytes on standard output and how the program ended *)
Definition run_go (f : file) (fuel : nat) : str * ending :=
  match call (fns_of f) (ifaces_of f) (smethods_of f) fuel s_main [] {| heap := []; out := [] |} with
  | Ok (_, s) => (concat (rev (out s)), EExit)
  | Panic m o => (concat (rev o), EPanic m)
  | Stuck w => ([], EStuck w)
  | Unsupported w => ([], EUnsupported w)
  | Fuel => ([], EFuel)
  end.
