(** The Go subset the backend emits: a mirror of crates/compiler/src/go/goast.rs
    (File, Item, Fn, Block, Stmt, Expr, GoUnaryOp, GoBinaryOp) and go/goty.rs (GoType).
    Strings are byte lists. *)
From Goml Require Import Common.Base.

Inductive gty :=
| GVoid | GUnit | GBool
| GInt8 | GInt16 | GInt32 | GInt64 | GUint8 | GUint16 | GUint32 | GUint64
| GFloat32 | GFloat64 | GString
| GStruct (name : str) (fields : list (str * gty))
| GPointer (elem : gty)
| GFunc (params : list gty) (ret : gty)
| GName (name : str)
| GArray (len : N) (elem : gty)
| GSlice (elem : gty).

Inductive unop := UNeg | UNot | UAddrOf | UDeref.
Inductive binop := BAdd | BSub | BMul | BDiv | BLess | BGreater | BLessEq | BGreaterEq | BEq | BNotEq | BAnd | BOr.

Inductive expr :=
| ENil (t : gty)
| EVoid (t : gty)
| EUnit (t : gty)
| EVar (name : str) (t : gty)
| EBool (b : bool) (t : gty)
| EInt (text : str) (t : gty)
| EFloat (text : str) (t : gty)
| EString (s : str) (t : gty)
| ECall (f : expr) (args : list expr) (t : gty)
| EUnary (op : unop) (e : expr) (t : gty)
| EBinary (op : binop) (l r : expr) (t : gty)
| EField (obj : expr) (field : str) (t : gty)
| EIndex (arr idx : expr) (t : gty)
| ECast (e : expr) (t : gty)                       (* printed as a type assertion e.(T) *)
| EStructLit (fields : list (str * expr)) (t : gty)
| EArrayLit (elems : list expr) (t : gty)
| EBlock (stmts : list stmt) (e : option expr) (t : gty)
with stmt :=
| SExpr (e : expr)
| SGo (call : expr)
| SVarDecl (name : str) (t : gty) (value : option expr)
| SAssign (name : str) (value : expr)
| SFieldAssign (target value : expr)
| SPointerAssign (pointer value : expr)
| SIndexAssign (arr idx value : expr)
| SReturn (e : option expr)
| SIf (cond : expr) (th : list stmt) (el : option (list stmt))
| SLoop (body : list stmt)
| SBreak
| SSwitchExpr (e : expr) (cases : list (expr * list stmt)) (default : option (list stmt))
| SSwitchType (bind : option str) (e : expr) (cases : list (gty * list stmt)) (default : option (list stmt)).

Record fn := { f_name : str; f_params : list (str * gty); f_ret : option gty; f_body : list stmt }.

Inductive item :=
| IPackage (name : str)
| IImport (paths : list str)
| IInterface (name : str) (methods : list str)
| IStruct (name : str) (fields : list (str * gty)) (methods : list (str * str))  (* (receiver type name, method name) *)
| ITypeAlias (name : str) (t : gty)
| IFn (f : fn).

Definition file := list item.
