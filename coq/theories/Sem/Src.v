(** Source-side executable semantics: one expression language for the Core, Mono and
    Lift IRs (core.rs Expr, mono.rs MonoExpr, lift.rs LiftExpr share their
    constructors) with the meaning the language documents: call-by-value,
    left-to-right, first matching arm, lexically scoped closures, shared Ref cells,
    fixed-width integers, short-circuit && and ||, failing operations stop the program.
    Trait calls are resolved (post-mono form); [go e] runs e at the spawn point. *)
From Goml Require Import Common.Base.
Open Scope Z_scope.

Inductive lit := LUnit | LBool (b : bool) | LInt (z : Z) | LStr (s : str) | LFloat (text : str).

Inductive ctor := CEnum (ty : str) (idx : N) | CStruct (ty : str).

Inductive unop := ONeg | ONot.
Inductive binop := OAdd | OSub | OMul | ODiv | OAnd | OOr | OLt | OGt | OLe | OGe | OEq | ONe.

(** integer width of the OPERANDS (bits, signed); None for non-integer operands *)
Definition width := option (Z * bool).

Inductive expr :=
| EVar (x : str)
| EPrim (l : lit)
| EConstr (c : ctor) (args : list expr)
| ETuple (items : list expr)
| EArray (items : list expr)
| EClosure (params : list str) (body : expr)
| ELet (x : str) (v body : expr)
| EMatch (scrut : expr) (arms : list (pat * expr)) (default : option expr)
| EIf (c t f : expr)
| EWhile (c b : expr)
| EGo (e : expr)
| EConstrGet (e : expr) (c : ctor) (i : N)
| EUnary (op : unop) (w : width) (e : expr)
| EBinary (op : binop) (w : width) (l r : expr)
| ECall (f : expr) (args : list expr)
| EToDyn (key : str) (e : expr)                       (* key: trait#type, chosen by the translator *)
| EDynCall (trait method : str) (recv : expr) (args : list expr)
| EProj (e : expr) (i : N)
| EMatchP (scrut : expr) (arms : list (spat * expr))   (* source-level match: full patterns, first match *)
| ELetP (p : spat) (v body : expr)                      (* source-level destructuring let *)
with pat :=
| PLit (l : lit)
| PTag (ty : str) (idx : N)                             (* enum constructor arm: tag test only *)
with spat :=
| SPVar (x : str)
| SPWild
| SPLit (l : lit)
| SPCon (c : ctor) (ps : list spat)
| SPTuple (ps : list spat).

Record fn := { f_name : str; f_params : list str; f_body : expr }.

Inductive val :=
| VUnit | VBool (b : bool) | VInt (z : Z) | VStr (s : str) | VFloat (t : str)
| VTuple (vs : list val)
| VCon (c : ctor) (vs : list val)
| VSeq (vs : list val)                 (* arrays and vectors *)
| VRef (addr : nat)
| VClos (params : list str) (body : expr) (env : list (str * val))
| VFun (name : str)
| VDyn (key : str) (v : val).

Inductive res (A : Type) :=
| Ok (a : A) | Panic (msg : str) (sofar : list str) | Stuck (why : N) | Unsupported (what : N) | Fuel.
Arguments Ok {A}. Arguments Panic {A}. Arguments Stuck {A}. Arguments Unsupported {A}. Arguments Fuel {A}.

Record state := { heap : list val; out : list str }.
Definition env := list (str * val).

Fixpoint lookup (x : str) (e : env) : option val :=
  match e with [] => None | (y, v) :: r => if list_eqb x y then Some v else lookup x r end.
Fixpoint find_fn (fs : list fn) (name : str) : option fn :=
  match fs with [] => None | f :: r => if list_eqb (f_name f) name then Some f else find_fn r name end.
Fixpoint set_nth (l : list val) (i : nat) (v : val) : option (list val) :=
  match l, i with
  | [], _ => None
  | _ :: r, O => Some (v :: r)
  | x :: r, S i' => match set_nth r i' v with Some r' => Some (x :: r') | None => None end
  end.

Definition wrap (w : width) (z : Z) : Z :=
  match w with
  | Some (bits, true) => (z + 2 ^ (bits - 1)) mod 2 ^ bits - 2 ^ (bits - 1)
  | Some (bits, false) => z mod 2 ^ bits
  | None => z
  end.

Definition z_to_str (z : Z) : str := if z <? 0 then 45%N :: dec (Z.to_N (- z)) else dec (Z.to_N z).

Fixpoint str_ltb (a b : str) : bool :=
  match a, b with
  | _, [] => false
  | [], _ :: _ => true
  | x :: a', y :: b' => if (x <? y)%N then true else if (y <? x)%N then false else str_ltb a' b'
  end.

Definition lit_eqb (a b : lit) : option bool :=
  match a, b with
  | LUnit, LUnit => Some true
  | LBool x, LBool y => Some (Bool.eqb x y)
  | LInt x, LInt y => Some (x =? y)
  | LStr x, LStr y => Some (list_eqb x y)
  | _, _ => None
  end.

Definition val_of_lit (l : lit) : val :=
  match l with LUnit => VUnit | LBool b => VBool b | LInt z => VInt z | LStr s => VStr s | LFloat t => VFloat t end.

Definition val_eqb (a b : val) : option bool :=
  match a, b with
  | VUnit, VUnit => Some true
  | VBool x, VBool y => Some (Bool.eqb x y)
  | VInt x, VInt y => Some (x =? y)
  | VStr x, VStr y => Some (list_eqb x y)
  | _, _ => None
  end.

Definition ctor_eqb (a b : ctor) : bool :=
  match a, b with
  | CEnum t i, CEnum t' i' => list_eqb t t' && (i =? i')%N
  | CStruct t, CStruct t' => list_eqb t t'
  | _, _ => false
  end.

Definition S_ (l : list N) : str := l.

(** names of the builtin functions (byte strings) *)
Definition b_string_println := S_ [115;116;114;105;110;103;95;112;114;105;110;116;108;110]%N.
Definition b_string_print := S_ [115;116;114;105;110;103;95;112;114;105;110;116]%N.
Definition b_string_len := S_ [115;116;114;105;110;103;95;108;101;110]%N.
Definition b_string_get := S_ [115;116;114;105;110;103;95;103;101;116]%N.
Definition b_bool_to_string := S_ [98;111;111;108;95;116;111;95;115;116;114;105;110;103]%N.
Definition b_bool_to_json := S_ [98;111;111;108;95;116;111;95;106;115;111;110]%N.
Definition b_unit_to_string := S_ [117;110;105;116;95;116;111;95;115;116;114;105;110;103]%N.
Definition b_json_escape_string := S_ [106;115;111;110;95;101;115;99;97;112;101;95;115;116;114;105;110;103]%N.
Definition b_missing := S_ [109;105;115;115;105;110;103]%N.
Definition b_ref := S_ [114;101;102]%N.
Definition b_ref_get := S_ [114;101;102;95;103;101;116]%N.
Definition b_ref_set := S_ [114;101;102;95;115;101;116]%N.
Definition b_array_get := S_ [97;114;114;97;121;95;103;101;116]%N.
Definition b_array_set := S_ [97;114;114;97;121;95;115;101;116]%N.
Definition b_vec_new := S_ [118;101;99;95;110;101;119]%N.
Definition b_vec_push := S_ [118;101;99;95;112;117;115;104]%N.
Definition b_vec_get := S_ [118;101;99;95;103;101;116]%N.
Definition b_vec_len := S_ [118;101;99;95;108;101;110]%N.
Definition s_to_string := S_ [95;116;111;95;115;116;114;105;110;103]%N.   (* "_to_string" *)
Definition s_true := S_ [116;114;117;101]%N.
Definition s_false := S_ [102;97;108;115;101]%N.
Definition s_unit := S_ [40;41]%N.

Fixpoint ends_with (s suf : str) : bool :=
  if list_eqb s suf then true else match s with [] => false | _ :: r => ends_with r suf end.

(** JSON/Go-%q style escaping on printable ASCII and the short escapes (model of the
    runtime's json_escape_string = fmt.Sprintf("%q")); other bytes are outside the model *)
Fixpoint quote_body (s : str) : option str :=
  match s with
  | [] => Some []
  | c :: r =>
      match quote_body r with
      | None => None
      | Some q =>
          if (c =? 34)%N then Some (92 :: 34 :: q)%N
          else if (c =? 92)%N then Some (92 :: 92 :: q)%N
          else if (c =? 10)%N then Some (92 :: 110 :: q)%N
          else if (c =? 13)%N then Some (92 :: 114 :: q)%N
          else if (c =? 9)%N then Some (92 :: 116 :: q)%N
          else if ((32 <=? c) && (c <? 127))%N then Some (c :: q)
          else None
      end
  end.

Definition builtin (name : str) (args : list val) (s : state) : option (res (val * state)) :=
  let emit := fun (b : str) => {| heap := heap s; out := b :: out s |} in
  if list_eqb name b_string_println then Some (match args with [VStr x] => Ok (VUnit, emit (x ++ [10%N])) | _ => Stuck 31 end)
  else if list_eqb name b_string_print then Some (match args with [VStr x] => Ok (VUnit, emit x) | _ => Stuck 31 end)
  else if list_eqb name b_string_len then Some (match args with [VStr x] => Ok (VInt (Z.of_nat (length x)), s) | _ => Stuck 32 end)
  else if list_eqb name b_string_get then
    Some (match args with
          | [VStr x; VInt i] =>
              if (i <? 0) || (Z.of_nat (length x) <=? i) then Panic [105;110;100;101;120]%N (out s)
              else match nth_error x (Z.to_nat i) with
                   | Some c => if (c <? 128)%N then Ok (VStr [c], s) else Unsupported 34
                   | None => Stuck 32 end
          | _ => Stuck 32 end)
  else if list_eqb name b_bool_to_string || list_eqb name b_bool_to_json then
    Some (match args with [VBool b] => Ok (VStr (if b then s_true else s_false), s) | _ => Stuck 33 end)
  else if list_eqb name b_unit_to_string then Some (match args with [VUnit] => Ok (VStr s_unit, s) | _ => Stuck 33 end)
  else if list_eqb name b_json_escape_string then
    Some (match args with
          | [VStr x] => match quote_body x with Some q => Ok (VStr ([34%N] ++ q ++ [34%N]), s) | None => Unsupported 2 end
          | _ => Stuck 33 end)
  else if list_eqb name b_missing then Some (Panic [] (out s))
  else if list_eqb name b_ref then
    Some (match args with [v] => Ok (VRef (length (heap s)), {| heap := heap s ++ [v]; out := out s |}) | _ => Stuck 34 end)
  else if list_eqb name b_ref_get then
    Some (match args with [VRef a] => match nth_error (heap s) a with Some v => Ok (v, s) | None => Stuck 35 end | _ => Stuck 35 end)
  else if list_eqb name b_ref_set then
    Some (match args with
          | [VRef a; v] => match set_nth (heap s) a v with Some h => Ok (VUnit, {| heap := h; out := out s |}) | None => Stuck 35 end
          | _ => Stuck 35 end)
  else if list_eqb name b_array_get || list_eqb name b_vec_get then
    Some (match args with
          | [VSeq l; VInt i] =>
              if (i <? 0) || (Z.of_nat (length l) <=? i) then Panic [105;110;100;101;120]%N (out s)
              else match nth_error l (Z.to_nat i) with Some v => Ok (v, s) | None => Stuck 36 end
          | _ => Stuck 36 end)
  else if list_eqb name b_array_set then
    Some (match args with
          | [VSeq l; VInt i; v] =>
              if (i <? 0) || (Z.of_nat (length l) <=? i) then Panic [105;110;100;101;120]%N (out s)
              else match set_nth l (Z.to_nat i) v with Some l' => Ok (VSeq l', s) | None => Stuck 36 end
          | _ => Stuck 36 end)
  else if list_eqb name b_vec_new then Some (match args with [] => Ok (VSeq [], s) | _ => Stuck 37 end)
  else if list_eqb name b_vec_push then Some (match args with [VSeq l; v] => Ok (VSeq (l ++ [v]), s) | _ => Stuck 37 end)
  else if list_eqb name b_vec_len then Some (match args with [VSeq l] => Ok (VInt (Z.of_nat (length l)), s) | _ => Stuck 37 end)
  else if ends_with name s_to_string then
    Some (match args with [VInt z] => Ok (VStr (z_to_str z), s) | [VFloat _] => Unsupported 11 | _ => Stuck 38 end)
  else None.

Notation "'bind' x <- a ; b" := (match a with Ok x => b | Panic m o => Panic m o | Stuck w => Stuck w | Unsupported w => Unsupported w | Fuel => Fuel end)
  (at level 200, x pattern, a at level 100, b at level 200).

Definition binop_val (op : binop) (w : width) (a b : val) (o : list str) : res val :=
  match op, a, b with
  | OAdd, VInt x, VInt y => Ok (VInt (wrap w (x + y)))
  | OSub, VInt x, VInt y => Ok (VInt (wrap w (x - y)))
  | OMul, VInt x, VInt y => Ok (VInt (wrap w (x * y)))
  | ODiv, VInt x, VInt y => if y =? 0 then Panic [100;105;118]%N o else Ok (VInt (wrap w (Z.quot x y)))
  | OAdd, VStr x, VStr y => Ok (VStr (x ++ y))
  | OLt, VInt x, VInt y => Ok (VBool (x <? y))
  | OGt, VInt x, VInt y => Ok (VBool (y <? x))
  | OLe, VInt x, VInt y => Ok (VBool (x <=? y))
  | OGe, VInt x, VInt y => Ok (VBool (y <=? x))
  | OLt, VStr x, VStr y => Ok (VBool (str_ltb x y))
  | OGt, VStr x, VStr y => Ok (VBool (str_ltb y x))
  | OLe, VStr x, VStr y => Ok (VBool (negb (str_ltb y x)))
  | OGe, VStr x, VStr y => Ok (VBool (negb (str_ltb x y)))
  | OEq, _, _ => match val_eqb a b with Some r => Ok (VBool r) | None => Unsupported 10 end
  | ONe, _, _ => match val_eqb a b with Some r => Ok (VBool (negb r)) | None => Unsupported 10 end
  | _, VFloat _, _ | _, _, VFloat _ => Unsupported 11
  | _, _, _ => Stuck 20
  end.

(** source semantics of patterns: bindings (innermost last), or no match *)
Fixpoint smatch (p : spat) (v : val) : option env :=
  let go_list :=
    (fix go (ps : list spat) (vs : list val) : option env :=
       match ps, vs with
       | [], [] => Some []
       | p :: ps', v :: vs' =>
           match smatch p v, go ps' vs' with
           | Some a, Some b => Some (b ++ a)
           | _, _ => None
           end
       | _, _ => None
       end) in
  match p, v with
  | SPVar x, _ => Some [(x, v)]
  | SPWild, _ => Some []
  | SPLit l, _ => match val_eqb (val_of_lit l) v with Some true => Some [] | _ => None end
  | SPCon c ps, VCon c' vs => if ctor_eqb c c' then go_list ps vs else None
  | SPTuple ps, VTuple vs => go_list ps vs
  | _, _ => None
  end.

Section Interp.
Variable fns : list fn.
(** dyn dispatch table: (trait#type key, method) -> function name, built by the translator *)
Variable dyn_table : list (str * str * str).

Fixpoint dyn_lookup (t : list (str * str * str)) (key m : str) : option str :=
  match t with
  | [] => None
  | (k, mm, f) :: r => if list_eqb k key && list_eqb mm m then Some f else dyn_lookup r key m
  end.

Fixpoint eval (fuel : nat) (e : expr) (rho : env) (s : state) {struct fuel} : res (val * state) :=
  match fuel with
  | O => Fuel
  | S fuel =>
    let eval_list :=
      (fix go (es : list expr) (s : state) : res (list val * state) :=
         match es with
         | [] => Ok ([], s)
         | x :: r => bind (v, s1) <- eval fuel x rho s; bind (vs, s2) <- go r s1; Ok (v :: vs, s2)
         end) in
    match e with
    | EVar x =>
        match lookup x rho with
        | Some v => Ok (v, s)
        | None => match find_fn fns x with
                  | Some _ => Ok (VFun x, s)
                  | None => match builtin x [] s with Some _ => Ok (VFun x, s) | None => Ok (VFun x, s) end
                  end
        end
    | EPrim l => Ok (val_of_lit l, s)
    | EConstr c args => bind (vs, s1) <- eval_list args s; Ok (VCon c vs, s1)
    | ETuple items => bind (vs, s1) <- eval_list items s; Ok (VTuple vs, s1)
    | EArray items => bind (vs, s1) <- eval_list items s; Ok (VSeq vs, s1)
    | EClosure ps b => Ok (VClos ps b rho, s)
    | ELet x v b => bind (w, s1) <- eval fuel v rho s; eval fuel b ((x, w) :: rho) s1
    | EMatch sc arms default =>
        bind (v, s1) <- eval fuel sc rho s;
        (fix go (arms : list (pat * expr)) : res (val * state) :=
           match arms with
           | [] => match default with Some d => eval fuel d rho s1 | None => Stuck 40 end
           | (PLit l, b) :: r =>
               match val_eqb (val_of_lit l) v with
               | Some true => eval fuel b rho s1
               | Some false => go r
               | None => Stuck 41
               end
           | (PTag t i, b) :: r =>
               match v with
               | VCon (CEnum _ j) _ => if (i =? j)%N then eval fuel b rho s1 else go r
               | _ => Stuck 42
               end
           end) arms
    | EIf c t f =>
        bind (cv, s1) <- eval fuel c rho s;
        match cv with VBool true => eval fuel t rho s1 | VBool false => eval fuel f rho s1 | _ => Stuck 43 end
    | EWhile c b =>
        bind (cv, s1) <- eval fuel c rho s;
        match cv with
        | VBool true => bind (_, s2) <- eval fuel b rho s1; eval fuel (EWhile c b) rho s2
        | VBool false => Ok (VUnit, s1)
        | _ => Stuck 44
        end
    | EGo x =>
        bind (v, s1) <- eval fuel x rho s;
        bind (_, s2) <- apply fuel v [] s1; Ok (VUnit, s2)
    | EConstrGet x c i =>
        bind (v, s1) <- eval fuel x rho s;
        match v with
        | VCon c' vs => if ctor_eqb c c' then match nth_error vs (N.to_nat i) with Some w => Ok (w, s1) | None => Stuck 45 end else Stuck 46
        | _ => Stuck 46
        end
    | EUnary op w x =>
        bind (v, s1) <- eval fuel x rho s;
        match op, v with
        | ONeg, VInt z => Ok (VInt (wrap w (- z)), s1)
        | ONot, VBool b => Ok (VBool (negb b), s1)
        | _, VFloat _ => Unsupported 11
        | _, _ => Stuck 47
        end
    | EBinary OAnd _ l r =>
        bind (a, s1) <- eval fuel l rho s;
        match a with VBool false => Ok (VBool false, s1) | VBool true => eval fuel r rho s1 | _ => Stuck 48 end
    | EBinary OOr _ l r =>
        bind (a, s1) <- eval fuel l rho s;
        match a with VBool true => Ok (VBool true, s1) | VBool false => eval fuel r rho s1 | _ => Stuck 48 end
    | EBinary op w l r =>
        bind (a, s1) <- eval fuel l rho s;
        bind (b, s2) <- eval fuel r rho s1;
        bind v <- binop_val op w a b (out s2); Ok (v, s2)
    | ECall f args =>
        bind (fv, s1) <- eval fuel f rho s;
        bind (vs, s2) <- eval_list args s1;
        apply fuel fv vs s2
    | EToDyn key x => bind (v, s1) <- eval fuel x rho s; Ok (VDyn key v, s1)
    | EDynCall tr m recv args =>
        bind (rv, s1) <- eval fuel recv rho s;
        bind (vs, s2) <- eval_list args s1;
        match rv with
        | VDyn key v =>
            match dyn_lookup dyn_table key m with
            | Some f => apply fuel (VFun f) (v :: vs) s2
            | None => Stuck 49
            end
        | _ => Stuck 49
        end
    | EProj x i =>
        bind (v, s1) <- eval fuel x rho s;
        match v with
        | VTuple vs => match nth_error vs (N.to_nat i) with Some w => Ok (w, s1) | None => Stuck 50 end
        | _ => Stuck 50
        end
    | EMatchP sc arms =>
        bind (v, s1) <- eval fuel sc rho s;
        (fix go (arms : list (spat * expr)) : res (val * state) :=
           match arms with
           | [] => Panic [] (out s1)                       (* no arm matches: the program fails here *)
           | (p, b) :: r => match smatch p v with Some bs => eval fuel b (bs ++ rho) s1 | None => go r end
           end) arms
    | ELetP p v b =>
        bind (w, s1) <- eval fuel v rho s;
        match smatch p w with Some bs => eval fuel b (bs ++ rho) s1 | None => Panic [] (out s1) end
    end
  end
with apply (fuel : nat) (f : val) (args : list val) (s : state) {struct fuel} : res (val * state) :=
  match fuel with
  | O => Fuel
  | S fuel =>
    match f with
    | VClos ps b env0 =>
        if negb (length ps =? length args)%nat then Stuck 51 else eval fuel b (combine ps args ++ env0) s
    | VFun name =>
        match find_fn fns name with
        | Some fd => if negb (length (f_params fd) =? length args)%nat then Stuck 52
                     else eval fuel (f_body fd) (combine (f_params fd) args) s
        | None => match builtin name args s with Some r => r | None => Stuck 53 end
        end
    | _ => Stuck 54
    end
  end.
End Interp.

Inductive ending := EExit | EPanic (msg : str) | EStuck (why : N) | EUnsupported (what : N) | EFuel.

Definition s_main : str := [109;97;105;110]%N.

Definition run_src (fns : list fn) (dyn_table : list (str * str * str)) (fuel : nat) : str * ending :=
  match apply fns dyn_table fuel (VFun s_main) [] {| heap := []; out := [] |} with
  | Ok (_, s) => (concat (rev (out s)), EExit)
  | Panic m o => (concat (rev o), EPanic m)
  | Stuck w => ([], EStuck w)
  | Unsupported w => ([], EUnsupported w)
  | Fuel => ([], EFuel)
  end.
