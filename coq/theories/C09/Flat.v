(** C09 — a first-order description of the A-normalisation model: the bindings an expression contributes, the
    operation that remains, the new counter; [anf] is exactly "wrap the bindings around what the continuation
    builds from the remaining operation". *)
From Goml Require Import Common.Base.
From Goml Require Import C09.Anf C09.Order.
Open Scope N_scope.

Definition binds := list (str * cexpr).

Fixpoint wrap (bs : binds) (a : aexpr) : aexpr :=
  match bs with [] => a | (x, c) :: r => ALet x c (wrap r a) end.

Lemma wrap_app b1 b2 a : wrap (b1 ++ b2) a = wrap b1 (wrap b2 a).
Proof. induction b1 as [|[x c] r IH]; cbn; [reflexivity|]. rewrite IH. reflexivity. Qed.

Fixpoint flat (fuel : nat) (e : lexpr) (n : N) {struct fuel} : binds * cexpr * N :=
  match fuel with
  | O => ([], CImm (IPrim []), n)
  | S fuel =>
      let flat_named := fun (e : lexpr) (n : N) =>
        let '(bs, c, n1) := flat fuel e (n + 1) in (bs ++ [(tname n, c)], IVar (tname n), n1) in
      let flat_imm := fun (e : lexpr) (n : N) =>
        match e with
        | LVar x => ([], IVar x, n)
        | LPrim p _ => ([], IPrim p, n)
        | _ => flat_named e n
        end in
      let flat_list := fix go (es : list lexpr) (n : N) {struct es} : binds * list imm * N :=
        match es with
        | [] => ([], [], n)
        | h :: t => let '(b1, i, n1) := flat_imm h n in let '(b2, r, n2) := go t n1 in (b1 ++ b2, i :: r, n2)
        end in
      let body := fun (e : lexpr) (n : N) => let '(bs, c, n1) := flat fuel e n in (wrap bs (ARet c), n1) in
      let arms_of := fix go (arms : list (imm * lexpr)) (n : N) {struct arms} : list (imm * aexpr) * N :=
        match arms with
        | [] => ([], n)
        | (p, b) :: r => let (ab, n1) := body b n in let (rr, n2) := go r n1 in ((p, ab) :: rr, n2)
        end in
      match e with
      | LVar x => ([], CImm (IVar x), n)
      | LPrim p _ => ([], CImm (IPrim p), n)
      | LTag i => ([], CImm (ITag i), n)
      | LConstr c args => let '(bs, a, n1) := flat_list args n in (bs, CConstr c a, n1)
      | LTuple items => let '(bs, a, n1) := flat_list items n in (bs, CTuple a, n1)
      | LArray items => let '(bs, a, n1) := flat_list items n in (bs, CArray a, n1)
      | LLet x v b =>
          let '(b1, c1, n1) := flat fuel v n in
          let '(b2, c2, n2) := flat fuel b n1 in
          (b1 ++ (x, c1) :: b2, c2, n2)
      | LIf c t f =>
          let '(b1, ci, n1) := flat_imm c n in
          let (ta, n2) := body t n1 in
          let (fa, n3) := body f n2 in
          (b1, CIf ci ta fa, n3)
      | LWhile c b =>
          let (ca, n1) := body c n in
          let (ba, n2) := body b n1 in
          ([], CWhile ca ba, n2)
      | LGo x => let '(b1, i, n1) := flat_imm x n in (b1, CGo i, n1)
      | LMatch s arms d =>
          let '(b1, si, n1) := flat_imm s n in
          let (aa, n2) := arms_of arms n1 in
          let (da, n3) := match d with Some x => let (xa, m) := body x n2 in (Some xa, m) | None => (None, n2) end in
          (b1, CMatch si aa da, n3)
      | LGet x c i => let '(b1, a, n1) := flat_imm x n in (b1, CGet a c i, n1)
      | LUn op x => let '(b1, a, n1) := flat_imm x n in (b1, CUn op a, n1)
      | LBin op l r =>
          let '(b1, li, n1) := (if name_lhs op l r then flat_named else flat_imm) l n in
          let '(b2, ri, n2) := (if name_rhs op r then flat_named else flat_imm) r n1 in
          (b1 ++ b2, CBin op li ri, n2)
      | LCall f args =>
          let '(b1, fi, n1) := flat_imm f n in
          let '(b2, a, n2) := flat_list args n1 in
          (b1 ++ b2, CCall fi a, n2)
      | LToDyn tr x => let '(b1, a, n1) := flat_imm x n in (b1, CToDyn tr a, n1)
      | LDynCall tr m recv args =>
          let '(b1, ri, n1) := flat_imm recv n in
          let '(b2, a, n2) := flat_list args n1 in
          (b1 ++ b2, CDynCall tr m ri a, n2)
      | LProj x i => let '(b1, a, n1) := flat_imm x n in (b1, CProj a i, n1)
      end
  end.

(** the local helpers of [flat], over an arbitrary recursive call *)
Section FHelpers.
Variable Fl : lexpr -> N -> binds * cexpr * N.

Definition flat_named_g (e : lexpr) (n : N) : binds * imm * N :=
  let '(bs, c, n1) := Fl e (n + 1) in (bs ++ [(tname n, c)], IVar (tname n), n1).

Definition flat_imm_g (e : lexpr) (n : N) : binds * imm * N :=
  match e with
  | LVar x => ([], IVar x, n)
  | LPrim p _ => ([], IPrim p, n)
  | _ => flat_named_g e n
  end.

Definition flat_list_g := fix go (es : list lexpr) (n : N) {struct es} : binds * list imm * N :=
  match es with
  | [] => ([], [], n)
  | h :: t => let '(b1, i, n1) := flat_imm_g h n in let '(b2, r, n2) := go t n1 in (b1 ++ b2, i :: r, n2)
  end.

Definition body_g (e : lexpr) (n : N) : aexpr * N := let '(bs, c, n1) := Fl e n in (wrap bs (ARet c), n1).

Definition farms_g := fix go (arms : list (imm * lexpr)) (n : N) {struct arms} : list (imm * aexpr) * N :=
  match arms with
  | [] => ([], n)
  | (p, b) :: r => let (ab, n1) := body_g b n in let (rr, n2) := go r n1 in ((p, ab) :: rr, n2)
  end.
End FHelpers.

Lemma flat_S fuel e n : flat (S fuel) e n =
  let Fl := flat fuel in
  match e with
  | LVar x => ([], CImm (IVar x), n)
  | LPrim p _ => ([], CImm (IPrim p), n)
  | LTag i => ([], CImm (ITag i), n)
  | LConstr c args => let '(bs, a, n1) := flat_list_g Fl args n in (bs, CConstr c a, n1)
  | LTuple items => let '(bs, a, n1) := flat_list_g Fl items n in (bs, CTuple a, n1)
  | LArray items => let '(bs, a, n1) := flat_list_g Fl items n in (bs, CArray a, n1)
  | LLet x v b =>
      let '(b1, c1, n1) := Fl v n in
      let '(b2, c2, n2) := Fl b n1 in
      (b1 ++ (x, c1) :: b2, c2, n2)
  | LIf c t f =>
      let '(b1, ci, n1) := flat_imm_g Fl c n in
      let (ta, n2) := body_g Fl t n1 in
      let (fa, n3) := body_g Fl f n2 in
      (b1, CIf ci ta fa, n3)
  | LWhile c b =>
      let (ca, n1) := body_g Fl c n in
      let (ba, n2) := body_g Fl b n1 in
      ([], CWhile ca ba, n2)
  | LGo x => let '(b1, i, n1) := flat_imm_g Fl x n in (b1, CGo i, n1)
  | LMatch s arms d =>
      let '(b1, si, n1) := flat_imm_g Fl s n in
      let (aa, n2) := farms_g Fl arms n1 in
      let (da, n3) := match d with Some x => let (xa, m) := body_g Fl x n2 in (Some xa, m) | None => (None, n2) end in
      (b1, CMatch si aa da, n3)
  | LGet x c i => let '(b1, a, n1) := flat_imm_g Fl x n in (b1, CGet a c i, n1)
  | LUn op x => let '(b1, a, n1) := flat_imm_g Fl x n in (b1, CUn op a, n1)
  | LBin op l r =>
      let '(b1, li, n1) := (if name_lhs op l r then flat_named_g Fl else flat_imm_g Fl) l n in
      let '(b2, ri, n2) := (if name_rhs op r then flat_named_g Fl else flat_imm_g Fl) r n1 in
      (b1 ++ b2, CBin op li ri, n2)
  | LCall f args =>
      let '(b1, fi, n1) := flat_imm_g Fl f n in
      let '(b2, a, n2) := flat_list_g Fl args n1 in
      (b1 ++ b2, CCall fi a, n2)
  | LToDyn tr x => let '(b1, a, n1) := flat_imm_g Fl x n in (b1, CToDyn tr a, n1)
  | LDynCall tr m recv args =>
      let '(b1, ri, n1) := flat_imm_g Fl recv n in
      let '(b2, a, n2) := flat_list_g Fl args n1 in
      (b1 ++ b2, CDynCall tr m ri a, n2)
  | LProj x i => let '(b1, a, n1) := flat_imm_g Fl x n in (b1, CProj a i, n1)
  end.
Proof. reflexivity. Qed.
