(** C09 — whatever [has_effects] / [stmt_has_effects] (C09/Dce.v) classify as effect-free writes nothing to standard
    output and changes no existing heap cell under the Go semantics of Sem/GoSem.v (it may allocate), and can only
    fail on a nil dereference or a failed type assertion — never on an index or a division. *)
From Goml Require Import Common.Base Sem.GoAst Sem.GoSem C09.Dce.
Open Scope Z_scope.

Definition grows (s s' : state) : Prop := out s' = out s /\ exists ext, heap s' = heap s ++ ext.

Lemma grows_refl s : grows s s.
Proof. split; [reflexivity | exists []; symmetry; apply app_nil_r]. Qed.
Lemma grows_trans a b c : grows a b -> grows b c -> grows a c.
Proof. intros [o1 [e1 h1]] [o2 [e2 h2]]. split; [congruence | exists (e1 ++ e2); rewrite h2, h1, app_assoc; reflexivity]. Qed.

Definition s_nil : str := [110;105;108]%N.
Definition s_assert : str := [97;115;115;101;114;116]%N.

Definition quiet {A} (st : A -> state) (s : state) (r : res A) : Prop :=
  match r with
  | Ok a => grows s (st a)
  | Panic m o => (m = s_nil \/ m = s_assert) /\ o = out s
  | _ => True
  end.
Definition good := quiet (fun p : val * state => snd p).
Definition goodL := quiet (fun p : list val * state => snd p).
Definition goodS := quiet (fun p : signal * env * state => snd p).

Lemma quiet_mono {A} (st : A -> state) s s1 r : grows s s1 -> quiet st s1 r -> quiet st s r.
Proof.
  intros G; destruct r as [a|m o| | |]; cbn; try tauto.
  - intros; eapply grows_trans; eauto.
  - intros [Hm Ho]; split; [exact Hm | rewrite Ho; apply G].
Qed.

Lemma binop_no_panic op t a b m o : op <> BDiv -> binop_val op t a b <> Panic m o.
Proof.
  intros Hd; destruct op; try congruence; destruct a, b; cbn; try discriminate;
    try (destruct (val_eqb _ _); discriminate).
Qed.

Lemma orb_false3 a b c : a || b || c = false -> a = false /\ b = false /\ c = false.
Proof. destruct a, b, c; cbn; intuition congruence. Qed.

Section P.
Variable fns : list fn.
Variable ifaces smethods : list (str * list str).
Notation ev := (eval fns ifaces smethods).
Notation xb := (exec_block fns ifaces smethods).
Notation ex := (exec fns ifaces smethods).

Definition claim (fuel : nat) : Prop :=
  (forall e rho s, has_effects e = false -> good s (ev fuel e rho s)) /\
  (forall ss rho s, any_stmt ss = false -> goodS s (xb fuel ss rho s)) /\
  (forall st rho s, stmt_has_effects st = false -> goodS s (ex fuel st rho s)).

Ltac un := unfold good, goodL, goodS, quiet in *; cbn [snd] in *.
Ltac sube IHe e rho s He :=
  let G := fresh "G" in
  assert (G := IHe e rho s He); un;
  destruct (eval _ _ _ _ e rho s) as [[? ?]|? ?|?|?|]; cbn [snd] in G |- *; try exact I; try exact G.
Ltac subb IHb ss rho s Hs :=
  let G := fresh "G" in
  assert (G := IHb ss rho s Hs); un;
  destruct (exec_block _ _ _ _ ss rho s) as [[[? ?] ?]|? ?|?|?|]; cbn [snd] in G |- *; try exact I; try exact G.
Ltac mono G := eapply (quiet_mono _ _ _ _ G).

Lemma expr_part fuel : claim fuel -> forall e rho s, has_effects e = false -> good s (ev (S fuel) e rho s).
Proof.
  intros [IH [IHb _]] e rho s He.
  assert (L : forall es s0, (forall x, In x es -> has_effects x = false) ->
            goodL s0 ((fix go (es : list expr) (s0 : state) {struct es} : res (list val * state) :=
                         match es with
                         | [] => Ok ([], s0)
                         | x :: r => bind (v, s1) <- ev fuel x rho s0; bind (vs, s2) <- go r s1; Ok (v :: vs, s2)
                         end) es s0)).
  { induction es as [|x r IHr]; intros s0 Hall; [cbn; apply grows_refl|].
    assert (Hx := IH x rho s0 (Hall x (or_introl eq_refl))).
    assert (Hr := fun s1 => IHr s1 (fun y Hy => Hall y (or_intror Hy))).
    un. destruct (ev fuel x rho s0) as [[v s1]|m o| | |]; cbn [snd] in Hx |- *; try exact I; [|exact Hx].
    specialize (Hr s1).
    match type of Hr with match ?t with _ => _ end => destruct t as [[vs s2]|m o| | |] end; cbn [snd] in Hr |- *; try exact I.
    - eapply grows_trans; eauto.
    - destruct Hr as [Hm Ho]; split; [exact Hm | rewrite Ho; apply Hx]. }
  destruct e; cbn [has_effects] in He; try discriminate; cbn [eval].
  all: try (cbn; apply grows_refl).
  - destruct (lookup name rho); [cbn; apply grows_refl|]. destruct (find_fn fns name); cbn; [apply grows_refl | exact I].
  - destruct (parse_int text); cbn; [apply grows_refl | exact I].
  - (* unary *)
    assert (U : good s (bind (v, s1) <- ev fuel e rho s;
        match op, v with
        | UNeg, VInt z => Ok (VInt (wrap_ty t (- z)), s1)
        | UNot, VBool b => Ok (VBool (negb b), s1)
        | UDeref, VPtr a => match nth_error (heap s1) a with Some w => Ok (w, s1) | None => Stuck 3 end
        | UDeref, VNil => Panic [110;105;108]%N (out s1)
        | _, VFloat _ => Unsupported 11
        | _, _ => Stuck 4
        end)).
    { sube IH e rho s He.
      destruct op, v; cbn; try exact I; try exact G.
      - destruct (nth_error (heap s0) addr); cbn; [exact G | exact I].
      - split; [left; reflexivity | apply G]. }
    destruct op; try exact U.
    destruct e; try exact U.
    sube IH (EStructLit fields t0) rho s He.
    eapply grows_trans; [exact G|]. split; [reflexivity | eexists; reflexivity].
  - (* binary *)
    destruct (const_violation op e1 e2 t); [exact I|].
    assert (Hd : op <> BDiv) by (intros ->; discriminate).
    assert (H12 : has_effects e1 = false /\ has_effects e2 = false).
    { destruct op; try congruence; apply Bool.orb_false_iff in He; exact He. }
    destruct H12 as [H1 H2].
    sube IH e1 rho s H1. mono G.
    sube IH e2 rho s0 H2.
    match goal with |- context [binop_val op ?ty v v0] => pose proof (binop_no_panic op ty v v0) as NP; destruct (binop_val op ty v v0) end; cbn; try exact I; [exact G0|].
    exfalso; eapply NP; [exact Hd | reflexivity].
  - (* field *)
    sube IH e rho s He.
    destruct v; cbn; try exact I.
    + destruct (assoc_str fields field); cbn; [exact G | exact I].
    + destruct (nth_error (heap s0) addr) as [[]|]; cbn; try exact I.
      destruct (assoc_str fields field); cbn; [exact G | exact I].
    + split; [left; reflexivity | apply G].
  - (* cast *)
    sube IH e rho s He.
    destruct v; cbn; try exact G.
    destruct (type_name_of t); cbn; [|exact G].
    destruct (assert_ok _ _ _ _); cbn; [exact G|]. split; [right; reflexivity | apply G].
  - (* struct literal *)
    assert (Hall : forall x, In x (map snd fields) -> has_effects x = false).
    { clear - He. induction fields as [|[f x] r IHr]; intros y [].
      - subst; apply Bool.orb_false_iff in He; apply He.
      - apply IHr; [apply Bool.orb_false_iff in He; apply He | assumption]. }
    specialize (L (map snd fields) s Hall). un.
    match type of L with match ?t with _ => _ end => destruct t as [[vs s2]|m o| | |] end; cbn [snd] in L |- *; try exact I; try exact L.
    destruct (type_name_of t); cbn; [exact L | exact I].
  - (* array literal *)
    assert (Hall : forall x, In x elems -> has_effects x = false).
    { clear - He. induction elems as [|x r IHr]; intros y [].
      - subst; apply Bool.orb_false_iff in He; apply He.
      - apply IHr; [apply Bool.orb_false_iff in He; apply He | assumption]. }
    specialize (L elems s Hall). un.
    match type of L with match ?t with _ => _ end => destruct t as [[vs s2]|m o| | |] end; cbn [snd] in L |- *; try exact I; try exact L.
  - (* expression block *)
    apply Bool.orb_false_iff in He. destruct He as [Hs Ho].
    change (good s (bind (sg, rho1, s1) <- xb fuel stmts rho s;
                    match sg with
                    | SNormal => match e with Some x => ev fuel x rho1 s1 | None => Ok (VUnit, s1) end
                    | _ => Stuck 8
                    end)).
    subb IHb stmts rho s Hs.
    destruct s0; try exact I.
    destruct e as [x|]; [|cbn; exact G].
    mono G. apply IH. exact Ho.
Qed.

Ltac subs IHs st rho s Hs :=
  let G := fresh "G" in
  assert (G := IHs st rho s Hs); un;
  destruct (exec _ _ _ _ st rho s) as [[[? ?] ?]|? ?|?|?|]; cbn [snd] in G |- *; try exact I; try exact G.

Lemma block_part fuel : claim fuel -> forall ss rho s, any_stmt ss = false -> goodS s (xb (S fuel) ss rho s).
Proof.
  intros [_ [IHb IHs]] ss rho s Hs.
  destruct ss as [|st r]; [cbn; apply grows_refl|].
  change (stmt_has_effects st || any_stmt r = false) in Hs.
  apply Bool.orb_false_iff in Hs; destruct Hs as [H1 H2].
  change (goodS s (bind (sg, rho1, s1) <- ex fuel st rho s;
                   match sg with SNormal => xb fuel r rho1 s1 | _ => Ok (sg, rho1, s1) end)).
  subs IHs st rho s H1.
  destruct s0; cbn; try exact G.
  mono G. apply IHb. exact H2.
Qed.

Lemma stmt_part fuel : claim fuel -> forall st rho s, stmt_has_effects st = false -> goodS s (ex (S fuel) st rho s).
Proof.
  intros [IH [IHb IHs]] st rho s He.
  assert (SC : forall ss rho0 s0 (f : signal -> signal), any_stmt ss = false ->
            goodS s0 (bind (sg, rho1, s1) <- xb fuel ss rho0 s0; Ok (f sg, drop_to (length rho) rho1, s1))).
  { intros ss rho0 s0 f Hs. subb IHb ss rho0 s0 Hs. }
  destruct st as [e|c|name t value|name value|tg vl|p vl|a i vl|e|cond th el|body| |e cases default|bnd e cases default].
  - (* SExpr *)
    change (has_effects e = false) in He.
    change (goodS s (bind (_, s1) <- ev fuel e rho s; Ok (SNormal, rho, s1))).
    sube IH e rho s He.
  - discriminate.
  - (* SVarDecl *)
    destruct value as [e|]; [|cbn; apply grows_refl].
    change (has_effects e = false) in He.
    change (goodS s (bind (v, s1) <- ev fuel e rho s; Ok (SNormal, (name, v) :: rho, s1))).
    sube IH e rho s He.
  - (* SAssign *)
    change (has_effects value = false) in He.
    change (goodS s (bind (v, s1) <- ev fuel value rho s;
                     if list_eqb name s_blank then Ok (SNormal, rho, s1)
                     else match update name v rho with Some rho1 => Ok (SNormal, rho1, s1) | None => Stuck 13 end)).
    sube IH value rho s He.
    destruct (list_eqb name s_blank); cbn; [exact G|].
    destruct (update name v rho); cbn; [exact G | exact I].
  - discriminate.
  - discriminate.
  - discriminate.
  - (* SReturn *)
    destruct e as [e|]; [|cbn; apply grows_refl].
    change (has_effects e = false) in He.
    change (goodS s (bind (v, s1) <- ev fuel e rho s; Ok (SReturnSig v, rho, s1))).
    sube IH e rho s He.
  - (* SIf *)
    change (has_effects cond || any_stmt th || match el with Some b => any_stmt b | None => false end = false) in He.
    apply orb_false3 in He. destruct He as [Hc [Ht Hel]].
    change (goodS s (bind (cv, s1) <- ev fuel cond rho s;
        match cv with
        | VBool true => bind (sg, rho1, s2) <- xb fuel th rho s1; Ok (sg, drop_to (length rho) rho1, s2)
        | VBool false =>
            match el with
            | Some b => bind (sg, rho1, s2) <- xb fuel b rho s1; Ok (sg, drop_to (length rho) rho1, s2)
            | None => Ok (SNormal, rho, s1)
            end
        | _ => Stuck 17
        end)).
    sube IH cond rho s Hc.
    destruct v; try exact I. destruct b.
    + mono G. exact (SC th rho s0 (fun x => x) Ht).
    + destruct el as [b|]; [|cbn; exact G].
      mono G. exact (SC b rho s0 (fun x => x) Hel).
  - (* SLoop *)
    change (any_stmt body = false) in He.
    change (goodS s (bind (sg, rho1, s1) <- xb fuel body rho s;
        let rho2 := drop_to (length rho) rho1 in
        match sg with
        | SNormal => ex fuel (SLoop body) rho2 s1
        | SBreakSig => Ok (SNormal, rho2, s1)
        | SReturnSig v => Ok (SReturnSig v, rho2, s1)
        end)).
    subb IHb body rho s He.
    destruct s0; cbn; try exact G.
    mono G. apply IHs. exact He.
  - cbn; apply grows_refl.
  - (* SSwitchExpr *)
    set (brk := fun sg : signal => match sg with SBreakSig => SNormal | x => x end).
    set (anyc := fix anyc (l : list (expr * list stmt)) : bool :=
                   match l with [] => false | (c, b) :: r => (has_effects c || any_stmt b) || anyc r end).
    change (has_effects e || anyc cases || match default with Some b => any_stmt b | None => false end = false) in He.
    apply orb_false3 in He. destruct He as [Hc [Hcs Hd]].
    change (goodS s (bind (v, s1) <- ev fuel e rho s;
      (fix go (cs : list (expr * list stmt)) (s1 : state) : res (signal * env * state) :=
         match cs with
         | [] => match default with
                 | Some b => bind (sg, rho1, s2) <- xb fuel b rho s1; Ok (brk sg, drop_to (length rho) rho1, s2)
                 | None => Ok (SNormal, rho, s1)
                 end
         | (c, b) :: r =>
             bind (cv, s2) <- ev fuel c rho s1;
             match val_eqb v cv with
             | Some true => bind (sg, rho1, s3) <- xb fuel b rho s2; Ok (brk sg, drop_to (length rho) rho1, s3)
             | Some false => go r s2
             | None => Stuck 18
             end
         end) cases s1)).
    sube IH e rho s Hc. mono G. clear G.
    revert s0. induction cases as [|[c b] r IHr]; intros s1.
    + destruct default as [b|]; [|cbn; apply grows_refl]. exact (SC b rho s1 brk Hd).
    + change ((has_effects c || any_stmt b) || anyc r = false) in Hcs.
      apply Bool.orb_false_iff in Hcs. destruct Hcs as [Hcb Hr].
      apply Bool.orb_false_iff in Hcb. destruct Hcb as [Hc1 Hb].
      sube IH c rho s1 Hc1. mono G.
      destruct (val_eqb v v0) as [[|]|]; try exact I.
      * exact (SC b rho s0 brk Hb).
      * apply IHr. exact Hr.
  - (* SSwitchType *)
    set (brk := fun sg : signal => match sg with SBreakSig => SNormal | x => x end).
    set (anyc := fix anyc (l : list (gty * list stmt)) : bool :=
                   match l with [] => false | (_, b) :: r => any_stmt b || anyc r end).
    change (has_effects e || anyc cases || match default with Some b => any_stmt b | None => false end = false) in He.
    apply orb_false3 in He. destruct He as [Hc [Hcs Hd]].
    change (goodS s (bind (v, s1) <- ev fuel e rho s;
        let rho_b := match bnd with Some x => (x, v) :: rho | None => rho end in
        match v with
        | VStruct n _ =>
            (fix go (cs : list (gty * list stmt)) : res (signal * env * state) :=
               match cs with
               | [] => match default with
                       | Some b => bind (sg, rho1, s2) <- xb fuel b rho_b s1; Ok (brk sg, drop_to (length rho) rho1, s2)
                       | None => Ok (SNormal, rho, s1)
                       end
               | (t, b) :: r =>
                   match type_name_of t with
                   | Some m => if assert_ok ifaces smethods n m
                               then bind (sg, rho1, s2) <- xb fuel b rho_b s1; Ok (brk sg, drop_to (length rho) rho1, s2)
                               else go r
                   | None => Stuck 19
                   end
               end) cases
        | VNil => match default with
                  | Some b => bind (sg, rho1, s2) <- xb fuel b rho_b s1; Ok (brk sg, drop_to (length rho) rho1, s2)
                  | None => Ok (SNormal, rho, s1)
                  end
        | _ => Stuck 19
        end)).
    sube IH e rho s Hc. mono G. clear G.
    cbv zeta.
    assert (D : goodS s0 match default with
                  | Some b => bind (sg, rho1, s2) <- xb fuel b (match bnd with Some x => (x, v) :: rho | None => rho end) s0; Ok (brk sg, drop_to (length rho) rho1, s2)
                  | None => Ok (SNormal, rho, s0)
                  end).
    { destruct default as [b|]; [|cbn; apply grows_refl]. exact (SC b _ s0 brk Hd). }
    destruct v; try exact I; try exact D.
    induction cases as [|[t b] r IHr]; [exact D|].
    change (any_stmt b || anyc r = false) in Hcs.
    apply Bool.orb_false_iff in Hcs. destruct Hcs as [Hb Hr].
    destruct (type_name_of t); [|exact I].
    destruct (assert_ok ifaces smethods tname s1).
    + exact (SC b _ s0 brk Hb).
    + apply IHr. exact Hr.
Qed.

Theorem all_quiet : forall fuel, claim fuel.
Proof.
  induction fuel as [|fuel IH].
  - repeat split; intros; exact I.
  - split; [exact (expr_part fuel IH) | split; [exact (block_part fuel IH) | exact (stmt_part fuel IH)]].
Qed.
End P.

