(** C09 — meaning of the lifted tree and of A-normal forms, parametric in what operations do.
    Variables live in one register file per activation (what the emitted Go does with its function-local variables);
    an operation is anything with operands already evaluated: construction, projection, arithmetic, calls, trait
    object calls, spawning. What an operation does (including calling other functions, printing, failing) is an
    oracle shared by both sides, so the theorem holds for every such meaning. *)
From Goml Require Import Common.Base.
From Goml Require Import C09.Anf C09.Order C09.Flat C09.FlatMono C09.FlatEq.
Open Scope N_scope.

Section Sem.
Variable val : Type.
Variable world : Type.
Variable prim_val : str -> val.
Variable tag_val : N -> val.
Variable unit_val : val.
Variable glob : str -> option val.
(** None: the operation fails at run time; the world is the one at the point of failure *)
Variable oper : desc -> list val -> world -> option val * world.
Variable truth : val -> option bool.
Variable pat_match : imm -> val -> bool.

Definition regs := str -> option val.
Definition upd (r : regs) (x : str) (v : val) : regs := fun y => if list_eqb y x then Some v else r y.
Definition look (r : regs) (x : str) : option val := match r x with Some v => Some v | None => glob x end.

Inductive out := OVal (v : val) (r : regs) (w : world) | OFail (w : world).
Inductive lout := LVals (vs : list val) (r : regs) (w : world) | LFail (w : world).

Definition do_op (d : desc) (vs : list val) (r : regs) (w : world) : out :=
  match oper d vs w with (Some v, w') => OVal v r w' | (None, w') => OFail w' end.

Definition select_l (arms : list (imm * lexpr)) (d : option lexpr) (v : val) : option lexpr :=
  (fix go (l : list (imm * lexpr)) : option lexpr :=
     match l with [] => d | (p, b) :: r => if pat_match p v then Some b else go r end) arms.

(** the lifted tree: operands left to right; None = out of fuel or stuck (unbound name, non-boolean condition, no arm) *)
Fixpoint eval_l (fuel : nat) (e : lexpr) (r : regs) (w : world) {struct fuel} : option out :=
  match fuel with
  | O => None
  | S fuel =>
      let eval_list := fix go (es : list lexpr) (r : regs) (w : world) {struct es} : option lout :=
        match es with
        | [] => Some (LVals [] r w)
        | h :: t =>
            match eval_l fuel h r w with
            | Some (OVal v r1 w1) =>
                match go t r1 w1 with
                | Some (LVals vs r2 w2) => Some (LVals (v :: vs) r2 w2)
                | other => other
                end
            | Some (OFail wf) => Some (LFail wf)
            | None => None
            end
        end in
      let op_list := fun (d : desc) (es : list lexpr) =>
        match eval_list es r w with
        | Some (LVals vs r1 w1) => Some (do_op d vs r1 w1)
        | Some (LFail wf) => Some (OFail wf)
        | None => None
        end in
      match e with
      | LVar x => match look r x with Some v => Some (OVal v r w) | None => None end
      | LPrim p _ => Some (OVal (prim_val p) r w)
      | LTag i => Some (OVal (tag_val i) r w)
      | LConstr c a => op_list (DConstr c (length a)) a
      | LTuple a => op_list (DTuple (length a)) a
      | LArray a => op_list (DArray (length a)) a
      | LLet x v b =>
          match eval_l fuel v r w with
          | Some (OVal vv r1 w1) => eval_l fuel b (upd r1 x vv) w1
          | other => other
          end
      | LIf c t f =>
          match eval_l fuel c r w with
          | Some (OVal vc r1 w1) => match truth vc with Some b => eval_l fuel (if b then t else f) r1 w1 | None => None end
          | other => other
          end
      | LWhile c b =>
          match eval_l fuel c r w with
          | Some (OVal vc r1 w1) =>
              match truth vc with
              | Some true =>
                  match eval_l fuel b r1 w1 with
                  | Some (OVal _ r2 w2) => eval_l fuel (LWhile c b) r2 w2
                  | other => other
                  end
              | Some false => Some (OVal unit_val r1 w1)
              | None => None
              end
          | other => other
          end
      | LGo x => op_list DGo [x]
      | LMatch s arms d =>
          match eval_l fuel s r w with
          | Some (OVal vs r1 w1) => match select_l arms d vs with Some b => eval_l fuel b r1 w1 | None => None end
          | other => other
          end
      | LGet x c i => op_list (DGet c i) [x]
      | LUn op x => op_list (DUn op) [x]
      | LBin op l r0 => op_list (DBin op) [l; r0]
      | LCall f a => op_list (DCall (length a)) (f :: a)
      | LToDyn tr x => op_list (DToDyn tr) [x]
      | LDynCall tr m rv a => op_list (DDynCall tr m (length a)) (rv :: a)
      | LProj x i => op_list (DProj i) [x]
      end
  end.

(** A-normal forms *)
Definition imv (r : regs) (i : imm) : option val :=
  match i with IVar x => look r x | IPrim p => Some (prim_val p) | ITag t => Some (tag_val t) end.

Fixpoint imvs (r : regs) (l : list imm) : option (list val) :=
  match l with
  | [] => Some []
  | i :: t => match imv r i, imvs r t with Some v, Some vs => Some (v :: vs) | _, _ => None end
  end.

Definition select_a (arms : list (imm * aexpr)) (d : option aexpr) (v : val) : option aexpr :=
  (fix go (l : list (imm * aexpr)) : option aexpr :=
     match l with [] => d | (p, b) :: r => if pat_match p v then Some b else go r end) arms.

Inductive evc : cexpr -> regs -> world -> out -> Prop :=
| EC_imm i r w v : imv r i = Some v -> evc (CImm i) r w (OVal v r w)
| EC_constr c a r w vs : imvs r a = Some vs -> evc (CConstr c a) r w (do_op (DConstr c (length a)) vs r w)
| EC_tuple a r w vs : imvs r a = Some vs -> evc (CTuple a) r w (do_op (DTuple (length a)) vs r w)
| EC_array a r w vs : imvs r a = Some vs -> evc (CArray a) r w (do_op (DArray (length a)) vs r w)
| EC_get x c i r w v : imv r x = Some v -> evc (CGet x c i) r w (do_op (DGet c i) [v] r w)
| EC_un op x r w v : imv r x = Some v -> evc (CUn op x) r w (do_op (DUn op) [v] r w)
| EC_bin op x y r w v u : imv r x = Some v -> imv r y = Some u -> evc (CBin op x y) r w (do_op (DBin op) [v; u] r w)
| EC_call f a r w vf vs : imv r f = Some vf -> imvs r a = Some vs -> evc (CCall f a) r w (do_op (DCall (length a)) (vf :: vs) r w)
| EC_todyn tr x r w v : imv r x = Some v -> evc (CToDyn tr x) r w (do_op (DToDyn tr) [v] r w)
| EC_dyncall tr m rv a r w vr vs : imv r rv = Some vr -> imvs r a = Some vs ->
    evc (CDynCall tr m rv a) r w (do_op (DDynCall tr m (length a)) (vr :: vs) r w)
| EC_go x r w v : imv r x = Some v -> evc (CGo x) r w (do_op DGo [v] r w)
| EC_proj x i r w v : imv r x = Some v -> evc (CProj x i) r w (do_op (DProj i) [v] r w)
| EC_if c t e r w vc b o : imv r c = Some vc -> truth vc = Some b -> eva (if b then t else e) r w o -> evc (CIf c t e) r w o
| EC_match s arms d r w vs b o : imv r s = Some vs -> select_a arms d vs = Some b -> eva b r w o -> evc (CMatch s arms d) r w o
| EC_while_done ca ba r w vc r1 w1 : eva ca r w (OVal vc r1 w1) -> truth vc = Some false -> evc (CWhile ca ba) r w (OVal unit_val r1 w1)
| EC_while_step ca ba r w vc r1 w1 vb r2 w2 o : eva ca r w (OVal vc r1 w1) -> truth vc = Some true ->
    eva ba r1 w1 (OVal vb r2 w2) -> evc (CWhile ca ba) r2 w2 o -> evc (CWhile ca ba) r w o
| EC_while_failc ca ba r w wf : eva ca r w (OFail wf) -> evc (CWhile ca ba) r w (OFail wf)
| EC_while_failb ca ba r w vc r1 w1 wf : eva ca r w (OVal vc r1 w1) -> truth vc = Some true ->
    eva ba r1 w1 (OFail wf) -> evc (CWhile ca ba) r w (OFail wf)
with eva : aexpr -> regs -> world -> out -> Prop :=
| EA_ret c r w o : evc c r w o -> eva (ARet c) r w o
| EA_let x c b r w v r1 w1 o : evc c r w (OVal v r1 w1) -> eva b (upd r1 x v) w1 o -> eva (ALet x c b) r w o
| EA_let_fail x c b r w wf : evc c r w (OFail wf) -> eva (ALet x c b) r w (OFail wf).

(** a sequence of bindings *)
Inductive bres := BOk (r : regs) (w : world) | BFail (w : world).
Inductive runb : binds -> regs -> world -> bres -> Prop :=
| RB_nil r w : runb [] r w (BOk r w)
| RB_cons x c bs r w v r1 w1 res : evc c r w (OVal v r1 w1) -> runb bs (upd r1 x v) w1 res -> runb ((x, c) :: bs) r w res
| RB_fail x c bs r w wf : evc c r w (OFail wf) -> runb ((x, c) :: bs) r w (BFail wf).

Lemma runb_app_ok b1 b2 r w r1 w1 res : runb b1 r w (BOk r1 w1) -> runb b2 r1 w1 res -> runb (b1 ++ b2) r w res.
Proof.
  intros H1. remember (BOk r1 w1) as q eqn:E. revert r1 w1 E. induction H1 as [r w|x c bs r w v ra wa res0 Hc Hb IH|x c bs r w wf Hc]; intros r1 w1 E H2.
  - injection E as -> ->. exact H2.
  - cbn. eapply RB_cons; [exact Hc|]. eapply IH; [exact E|exact H2].
  - discriminate E.
Qed.

Lemma runb_app_fail b1 b2 r w wf : runb b1 r w (BFail wf) -> runb (b1 ++ b2) r w (BFail wf).
Proof.
  intros H1. remember (BFail wf) as q eqn:E. induction H1 as [r w|x c bs r w v ra wa res0 Hc Hb IH|x c bs r w wf0 Hc].
  - discriminate E.
  - cbn. eapply RB_cons; [exact Hc|]. apply IH. exact E.
  - injection E as ->. cbn. apply RB_fail. exact Hc.
Qed.

Lemma eva_wrap_ok bs a r w r1 w1 o : runb bs r w (BOk r1 w1) -> eva a r1 w1 o -> eva (wrap bs a) r w o.
Proof.
  intros H1. remember (BOk r1 w1) as q eqn:E. revert r1 w1 E. induction H1 as [r w|x c bs r w v ra wa res0 Hc Hb IH|x c bs r w wf Hc]; intros r1 w1 E H2.
  - injection E as -> ->. exact H2.
  - cbn. eapply EA_let; [exact Hc|]. eapply IH; [exact E|exact H2].
  - discriminate E.
Qed.

Lemma eva_wrap_fail bs a r w wf : runb bs r w (BFail wf) -> eva (wrap bs a) r w (OFail wf).
Proof.
  intros H1. remember (BFail wf) as q eqn:E. induction H1 as [r w|x c bs r w v ra wa res0 Hc Hb IH|x c bs r w wf0 Hc].
  - discriminate E.
  - cbn. eapply EA_let; [exact Hc|]. apply IH. exact E.
  - injection E as ->. cbn. apply EA_let_fail. exact Hc.
Qed.


(* ------------------------------------------------------------------------------------------------ *)
(** * names: temporaries, binders, well-formedness of the source *)

Definition is_temp (x : str) : bool :=
  match x with
  | 116 :: d :: ds => forallb is_digit (d :: ds)
  | _ => false
  end.

Lemma is_temp_tname m : is_temp (tname m) = true.
Proof.
  unfold tname, is_temp. pose proof (dec_all_digits m) as A. pose proof (dec_nonempty m) as B.
  destruct (dec m) as [|d ds]; [contradiction|]. exact A.
Qed.

Lemma tname_inj a b : tname a = tname b -> a = b.
Proof. unfold tname. intro E. injection E as E. apply dec_inj. exact E. Qed.

Fixpoint bnd (e : lexpr) : list str :=
  let fix bnds (l : list lexpr) : list str := match l with [] => [] | x :: r => bnd x ++ bnds r end in
  match e with
  | LVar _ | LPrim _ _ | LTag _ => []
  | LConstr _ a | LTuple a | LArray a => bnds a
  | LLet x v b => x :: bnd v ++ bnd b
  | LIf c t f => bnd c ++ bnd t ++ bnd f
  | LWhile c b => bnd c ++ bnd b
  | LGo x | LGet x _ _ | LUn _ x | LToDyn _ x | LProj x _ => bnd x
  | LMatch s arms d =>
      bnd s ++ (fix go (l : list (imm * lexpr)) : list str := match l with [] => [] | (_, b) :: r => bnd b ++ go r end) arms
            ++ match d with Some x => bnd x | None => [] end
  | LBin _ l r => bnd l ++ bnd r
  | LCall f a => bnd f ++ bnds a
  | LDynCall _ _ rv a => bnd rv ++ bnds a
  end.

Definition bnds (l : list lexpr) : list str :=
  (fix bnds (l : list lexpr) : list str := match l with [] => [] | x :: r => bnd x ++ bnds r end) l.
Definition bnd_arms (l : list (imm * lexpr)) : list str :=
  (fix go (l : list (imm * lexpr)) : list str := match l with [] => [] | (_, b) :: r => bnd b ++ go r end) l.

Definition mem (x : str) (l : list str) : bool := existsb (list_eqb x) l.

Lemma mem_false x l : mem x l = false -> ~ In x l.
Proof.
  unfold mem. intros H Hin. assert (existsb (list_eqb x) l = true) as E.
  { apply existsb_exists. exists x. split; [exact Hin|]. apply list_eqb_spec. reflexivity. }
  congruence.
Qed.

(** an operand that is a variable must not be re-bound by a later operand of the same operation *)
Definition operand_ok (h : lexpr) (later : list str) : bool :=
  match h with LVar x => negb (mem x later) | _ => true end.

Fixpoint wfb (e : lexpr) : bool :=
  let fix wf_ops (l : list lexpr) : bool :=
    match l with
    | [] => true
    | h :: t => wfb h && operand_ok h ((fix bnds (l : list lexpr) : list str := match l with [] => [] | x :: r => bnd x ++ bnds r end) t) && wf_ops t
    end in
  match e with
  | LVar x => negb (is_temp x)
  | LPrim _ _ | LTag _ => true
  | LConstr _ a | LTuple a | LArray a => wf_ops a
  | LLet x v b => negb (is_temp x) && wfb v && wfb b
  | LIf c t f => wfb c && wfb t && wfb f
  | LWhile c b => wfb c && wfb b
  | LGo x | LGet x _ _ | LUn _ x | LToDyn _ x | LProj x _ => wfb x
  | LMatch s arms d =>
      wfb s && (fix go (l : list (imm * lexpr)) : bool := match l with [] => true | (_, b) :: r => wfb b && go r end) arms
            && match d with Some x => wfb x | None => true end
  | LBin _ l r => wf_ops [l; r]
  | LCall f a => wf_ops (f :: a)
  | LDynCall _ _ rv a => wf_ops (rv :: a)
  end.

Definition wf_ops (l : list lexpr) : bool :=
  (fix wf_ops (l : list lexpr) : bool :=
    match l with
    | [] => true
    | h :: t => wfb h && operand_ok h (bnds t) && wf_ops t
    end) l.
Definition wf_arms (l : list (imm * lexpr)) : bool :=
  (fix go (l : list (imm * lexpr)) : bool := match l with [] => true | (_, b) :: r => wfb b && go r end) l.

Lemma wf_ops_cons h t : wf_ops (h :: t) = wfb h && operand_ok h (bnds t) && wf_ops t.
Proof. reflexivity. Qed.

(** binders are never temporaries *)
Lemma bnd_not_temp : forall e, wfb e = true -> forall x, In x (bnd e) -> is_temp x = false.
Proof.
  fix IH 1. intros e.
  assert (L : forall l, wf_ops l = true -> forall x, In x (bnds l) -> is_temp x = false).
  { induction l as [|h t IHt]; intros W x Hin; [destruct Hin|].
    rewrite wf_ops_cons in W. apply andb_prop in W. destruct W as [W W3]. apply andb_prop in W. destruct W as [W1 W2].
    change (bnds (h :: t)) with (bnd h ++ bnds t) in Hin. apply in_app_or in Hin. destruct Hin as [Hin|Hin]; [exact (IH h W1 x Hin)|exact (IHt W3 x Hin)]. }
  destruct e as [x0|p cls|ix|c args|items|items|x0 v b|c t f|c b|e0|s arms default|e0 c i|op e0|op l r|f args|tr e0|tr m rv args|e0 i];
    cbn [wfb bnd]; intros W y Hin;
    try (destruct Hin; fail);
    try (exact (L _ W y Hin)); try (exact (IH _ W y Hin)).
  - (* let *) apply andb_prop in W. destruct W as [W W3]. apply andb_prop in W. destruct W as [W1 W2].
    destruct Hin as [<-|Hin]; [destruct (is_temp x0); [discriminate W1|reflexivity]|].
    apply in_app_or in Hin. destruct Hin as [Hin|Hin]; [exact (IH _ W2 y Hin)|exact (IH _ W3 y Hin)].
  - (* if *) apply andb_prop in W. destruct W as [W W3]. apply andb_prop in W. destruct W as [W1 W2].
    apply in_app_or in Hin. destruct Hin as [Hin|Hin]; [exact (IH _ W1 y Hin)|].
    apply in_app_or in Hin. destruct Hin as [Hin|Hin]; [exact (IH _ W2 y Hin)|exact (IH _ W3 y Hin)].
  - (* while *) apply andb_prop in W. destruct W as [W1 W2].
    apply in_app_or in Hin. destruct Hin as [Hin|Hin]; [exact (IH _ W1 y Hin)|exact (IH _ W2 y Hin)].
  - (* match *) apply andb_prop in W. destruct W as [W W3]. apply andb_prop in W. destruct W as [W1 W2].
    apply in_app_or in Hin. destruct Hin as [Hin|Hin]; [exact (IH _ W1 y Hin)|].
    apply in_app_or in Hin. destruct Hin as [Hin|Hin].
    + clear W3. induction arms as [|[p b] r IHr]; [destruct Hin|].
      apply andb_prop in W2. destruct W2 as [Wb Wr]. apply in_app_or in Hin. destruct Hin as [Hin|Hin]; [exact (IH _ Wb y Hin)|exact (IHr Wr Hin)].
    + destruct default as [d|]; [exact (IH _ W3 y Hin)|destruct Hin].
  - (* bin *) exact (L [l; r] W y ltac:(cbn; rewrite app_nil_r; exact Hin)).
  - (* call *) exact (L (f :: args) W y Hin).
  - (* dyn call *) exact (L (rv :: args) W y Hin).
Qed.


(* ------------------------------------------------------------------------------------------------ *)
(** * registers of the source run and of the A-normal form run *)

(** they agree on everything that is not a temporary *)
Definition ext (r ra : regs) : Prop := forall x, is_temp x = false -> ra x = r x.
(** what a piece of A-normal code may write: the binders of its source and the temporaries n .. n'-1 *)
Definition frame (n n' : N) (B : list str) (ra ra2 : regs) : Prop :=
  forall x, ~ In x B -> (forall m, n <= m -> m < n' -> x <> tname m) -> ra2 x = ra x.

Lemma ext_refl r : ext r r. Proof. intros x _. reflexivity. Qed.

Lemma ext_upd r ra x v : ext r ra -> ext (upd r x v) (upd ra x v).
Proof. intros H y Hy. unfold upd. destruct (list_eqb y x); [reflexivity|apply H; exact Hy]. Qed.

Lemma ext_upd_temp r ra x v : ext r ra -> is_temp x = true -> ext r (upd ra x v).
Proof.
  intros H Hx y Hy. unfold upd. destruct (list_eqb y x) eqn:E; [|apply H; exact Hy].
  apply list_eqb_spec in E. subst y. congruence.
Qed.

Lemma look_ext r ra x : ext r ra -> is_temp x = false -> look ra x = look r x.
Proof. intros H Hx. unfold look. rewrite (H x Hx). reflexivity. Qed.

Lemma frame_refl n B ra : frame n n B ra ra. Proof. intros x _ _. reflexivity. Qed.

Lemma frame_trans n n1 n2 B1 B2 B ra ra1 ra2 :
  n <= n1 -> n1 <= n2 -> incl B1 B -> incl B2 B ->
  frame n n1 B1 ra ra1 -> frame n1 n2 B2 ra1 ra2 -> frame n n2 B ra ra2.
Proof.
  intros L1 L2 I1 I2 F1 F2 x Hx Ht.
  rewrite (F2 x); [apply F1|..].
  - intro Hin. apply Hx. apply I1. exact Hin.
  - intros m A1 A2. apply Ht; lia.
  - intro Hin. apply Hx. apply I2. exact Hin.
  - intros m A1 A2. apply Ht; lia.
Qed.

Lemma frame_weaken n n' a b B B' ra ra2 : a <= n -> n' <= b -> incl B B' -> frame n n' B ra ra2 -> frame a b B' ra ra2.
Proof.
  intros L1 L2 I F x Hx Ht. apply F.
  - intro Hin. apply Hx. apply I. exact Hin.
  - intros m A1 A2. apply Ht; lia.
Qed.

Lemma frame_upd n n' B ra ra2 x v : frame n n' B ra ra2 -> (In x B \/ exists m, n <= m /\ m < n' /\ x = tname m) -> frame n n' B ra (upd ra2 x v).
Proof.
  intros F Hx y Hy Ht. unfold upd. destruct (list_eqb y x) eqn:E; [|apply F; assumption].
  apply list_eqb_spec in E. subst y. destruct Hx as [Hin|[m [A1 [A2 ->]]]]; [contradiction|]. exfalso. exact (Ht m A1 A2 eq_refl).
Qed.

Lemma look_frame n n' B ra ra2 x : frame n n' B ra ra2 -> ~ In x B -> (forall m, n <= m -> m < n' -> x <> tname m) -> look ra2 x = look ra x.
Proof. intros F A1 A2. unfold look. rewrite (F x A1 A2). reflexivity. Qed.

(** where an immediate produced for an operand comes from *)
Definition imm_kind (e : lexpr) (n n' : N) (i : imm) : Prop :=
  (i = IVar (tname n) /\ n < n') \/ (exists x, e = LVar x /\ i = IVar x) \/ (exists p, i = IPrim p).

(** an immediate keeps its value while later code runs, if that code cannot write its variable *)
Lemma imv_stable e n n' i a b B ra ra2 v :
  imm_kind e n n' i -> wfb e = true -> n' <= a -> frame a b B ra ra2 ->
  (forall x, e = LVar x -> ~ In x B) -> (forall x, In x B -> is_temp x = false) ->
  imv ra i = Some v -> imv ra2 i = Some v.
Proof.
  intros K W L F Hv HB Hi. destruct K as [[-> Hn]|[[x [-> ->]]|[p ->]]].
  - cbn in *. rewrite (look_frame a b B ra ra2 (tname n) F); [exact Hi| |].
    + intro Hin. apply HB in Hin. rewrite is_temp_tname in Hin. discriminate Hin.
    + intros m A1 A2 E. apply tname_inj in E. lia.
  - cbn in *. rewrite (look_frame a b B ra ra2 x F); [exact Hi|apply Hv; reflexivity|].
    intros m A1 A2 E. subst x. rewrite is_temp_tname in W. discriminate W.
  - exact Hi.
Qed.

(* ------------------------------------------------------------------------------------------------ *)
(** * unfolding the source evaluator *)

Section EvalHelpers.
Variable E : lexpr -> regs -> world -> option out.

Definition eval_list_g := fix go (es : list lexpr) (r : regs) (w : world) {struct es} : option lout :=
  match es with
  | [] => Some (LVals [] r w)
  | h :: t =>
      match E h r w with
      | Some (OVal v r1 w1) =>
          match go t r1 w1 with
          | Some (LVals vs r2 w2) => Some (LVals (v :: vs) r2 w2)
          | other => other
          end
      | Some (OFail wf) => Some (LFail wf)
      | None => None
      end
  end.

Definition op_list_g (d : desc) (es : list lexpr) (r : regs) (w : world) : option out :=
  match eval_list_g es r w with
  | Some (LVals vs r1 w1) => Some (do_op d vs r1 w1)
  | Some (LFail wf) => Some (OFail wf)
  | None => None
  end.
End EvalHelpers.

Lemma eval_S fuel e r w : eval_l (S fuel) e r w =
  let E := eval_l fuel in
  match e with
  | LVar x => match look r x with Some v => Some (OVal v r w) | None => None end
  | LPrim p _ => Some (OVal (prim_val p) r w)
  | LTag i => Some (OVal (tag_val i) r w)
  | LConstr c a => op_list_g E (DConstr c (length a)) a r w
  | LTuple a => op_list_g E (DTuple (length a)) a r w
  | LArray a => op_list_g E (DArray (length a)) a r w
  | LLet x v b =>
      match E v r w with
      | Some (OVal vv r1 w1) => E b (upd r1 x vv) w1
      | other => other
      end
  | LIf c t f =>
      match E c r w with
      | Some (OVal vc r1 w1) => match truth vc with Some b => E (if b then t else f) r1 w1 | None => None end
      | other => other
      end
  | LWhile c b =>
      match E c r w with
      | Some (OVal vc r1 w1) =>
          match truth vc with
          | Some true =>
              match E b r1 w1 with
              | Some (OVal _ r2 w2) => E (LWhile c b) r2 w2
              | other => other
              end
          | Some false => Some (OVal unit_val r1 w1)
          | None => None
          end
      | other => other
      end
  | LGo x => op_list_g E DGo [x] r w
  | LMatch s arms d =>
      match E s r w with
      | Some (OVal vs r1 w1) => match select_l arms d vs with Some b => E b r1 w1 | None => None end
      | other => other
      end
  | LGet x c i => op_list_g E (DGet c i) [x] r w
  | LUn op x => op_list_g E (DUn op) [x] r w
  | LBin op l r0 => op_list_g E (DBin op) [l; r0] r w
  | LCall f a => op_list_g E (DCall (length a)) (f :: a) r w
  | LToDyn tr x => op_list_g E (DToDyn tr) [x] r w
  | LDynCall tr m rv a => op_list_g E (DDynCall tr m (length a)) (rv :: a) r w
  | LProj x i => op_list_g E (DProj i) [x] r w
  end.
Proof. reflexivity. Qed.


(* ------------------------------------------------------------------------------------------------ *)
(** * the simulation *)

Lemma bnds_not_temp l : wf_ops l = true -> forall x, In x (bnds l) -> is_temp x = false.
Proof.
  induction l as [|h t IHt]; intros W x Hin; [destruct Hin|].
  rewrite wf_ops_cons in W. apply andb_prop in W. destruct W as [W W3]. apply andb_prop in W. destruct W as [W1 W2].
  change (bnds (h :: t)) with (bnd h ++ bnds t) in Hin. apply in_app_or in Hin.
  destruct Hin as [Hin|Hin]; [exact (bnd_not_temp h W1 x Hin)|exact (IHt W3 x Hin)].
Qed.

(** what running the bindings and the remaining operation of a source expression must give *)
Definition post (B : list str) (n n' : N) (bs : binds) (c : cexpr) (ra : regs) (w : world) (o : out) : Prop :=
  match o with
  | OVal v r2 w2 =>
      exists ra1 w1 ra2, runb bs ra w (BOk ra1 w1) /\ evc c ra1 w1 (OVal v ra2 w2) /\ ext r2 ra2 /\ n <= n' /\ frame n n' B ra ra2
  | OFail wf => runb bs ra w (BFail wf) \/ exists ra1 w1, runb bs ra w (BOk ra1 w1) /\ evc c ra1 w1 (OFail wf)
  end.

Definition postI (e : lexpr) (n n' : N) (bs : binds) (i : imm) (ra : regs) (w : world) (o : out) : Prop :=
  match o with
  | OVal v r2 w2 =>
      exists ra2, runb bs ra w (BOk ra2 w2) /\ imv ra2 i = Some v /\ ext r2 ra2 /\ n <= n' /\ frame n n' (bnd e) ra ra2 /\ imm_kind e n n' i
  | OFail wf => runb bs ra w (BFail wf)
  end.

Definition postL (es : list lexpr) (n n' : N) (bs : binds) (l : list imm) (ra : regs) (w : world) (o : lout) : Prop :=
  match o with
  | LVals vs r2 w2 =>
      exists ra2, runb bs ra w (BOk ra2 w2) /\ imvs ra2 l = Some vs /\ ext r2 ra2 /\ n <= n' /\ frame n n' (bnds es) ra ra2 /\ length l = length es
  | LFail wf => runb bs ra w (BFail wf)
  end.

Definition postB (e : lexpr) (n n' : N) (a : aexpr) (ra : regs) (w : world) (o : out) : Prop :=
  match o with
  | OVal v r2 w2 => exists ra2, eva a ra w (OVal v ra2 w2) /\ ext r2 ra2 /\ n <= n' /\ frame n n' (bnd e) ra ra2
  | OFail wf => eva a ra w (OFail wf)
  end.

Definition dl (l : list lexpr) : nat :=
  (fix dl (l : list lexpr) : nat := match l with [] => 0%nat | x :: r => Nat.max (depth x) (dl r) end) l.

Section Step.
Variable E : lexpr -> regs -> world -> option out.
Hypothesis IHE : forall e r w o, E e r w = Some o ->
  forall fa n bs c n' ra, (depth e <= fa)%nat -> flat fa e n = (bs, c, n') -> wfb e = true -> ext r ra ->
  post (bnd e) n n' bs c ra w o.

Lemma H_named e r w o fa n bs i n' ra :
  E e r w = Some o -> (depth e <= fa)%nat -> flat_named_g (flat fa) e n = (bs, i, n') -> wfb e = true -> ext r ra ->
  postI e n n' bs i ra w o.
Proof.
  intros He Hd Hf W X. unfold flat_named_g in Hf. destruct (flat fa e (n + 1)) as [[bs0 c] n1] eqn:Fe.
  injection Hf as <- <- <-. pose proof (IHE e r w o He fa (n + 1) bs0 c n1 ra Hd Fe W X) as P.
  destruct o as [v r2 w2|wf]; cbn [post postI] in *.
  - destruct P as [ra1 [w1 [ra2 [R [C [X2 [L F]]]]]]].
    exists (upd ra2 (tname n) v). split; [|split; [|split; [|split; [|split]]]].
    + eapply runb_app_ok; [exact R|]. eapply RB_cons; [exact C|apply RB_nil].
    + cbn. unfold look, upd. rewrite (proj2 (list_eqb_spec _ _) eq_refl). reflexivity.
    + apply ext_upd_temp; [exact X2|apply is_temp_tname].
    + lia.
    + apply frame_upd; [eapply frame_weaken; [| | |exact F]; [lia|lia|apply incl_refl]|].
      right. exists n. split; [lia|split; [lia|reflexivity]].
    + left. split; [reflexivity|lia].
  - destruct P as [R|[ra1 [w1 [R C]]]].
    + apply runb_app_fail. exact R.
    + eapply runb_app_ok; [exact R|]. apply RB_fail. exact C.
Qed.

Lemma H_imm e r w o fa n bs i n' ra :
  E e r w = Some o -> (depth e <= fa)%nat -> flat_imm_g (flat fa) e n = (bs, i, n') -> wfb e = true -> ext r ra ->
  postI e n n' bs i ra w o.
Proof.
  intros He Hd Hf W X.
  assert (G : forall bs0 i0, flat_named_g (flat fa) e n = (bs0, i0, n') -> bs0 = bs -> i0 = i -> postI e n n' bs i ra w o).
  { intros bs0 i0 Hn <- <-. eapply H_named; eassumption. }
  destruct fa as [|fa]; [destruct e; cbn in Hd; lia|].
  destruct e; try (eapply G; [exact Hf|reflexivity|reflexivity]).
  - (* variable *)
    cbn in Hf. injection Hf as <- <- <-.
    pose proof (IHE _ r w o He (S fa) n [] (CImm (IVar x)) n ra Hd eq_refl W X) as P.
    destruct o as [v r2 w2|wf]; cbn [post postI] in *.
    + destruct P as [ra1 [w1 [ra2 [R [C [X2 [L F]]]]]]]. inversion R; subst. inversion C; subst.
      exists ra2. split; [apply RB_nil|split; [assumption|split; [exact X2|split; [lia|split; [exact F|]]]]].
      right. left. exists x. split; reflexivity.
    + destruct P as [R|[ra1 [w1 [R C]]]]; [inversion R|inversion C].
  - (* literal *)
    cbn in Hf. injection Hf as <- <- <-.
    pose proof (IHE _ r w o He (S fa) n [] (CImm (IPrim p)) n ra Hd eq_refl W X) as P.
    destruct o as [v r2 w2|wf]; cbn [post postI] in *.
    + destruct P as [ra1 [w1 [ra2 [R [C [X2 [L F]]]]]]]. inversion R; subst. inversion C; subst.
      exists ra2. split; [apply RB_nil|split; [assumption|split; [exact X2|split; [lia|split; [exact F|]]]]].
      right. right. exists p. reflexivity.
    + destruct P as [R|[ra1 [w1 [R C]]]]; [inversion R|inversion C].
Qed.

Lemma H_either (b : bool) e r w o fa n bs i n' ra :
  E e r w = Some o -> (depth e <= fa)%nat -> (if b then flat_named_g (flat fa) else flat_imm_g (flat fa)) e n = (bs, i, n') ->
  wfb e = true -> ext r ra -> postI e n n' bs i ra w o.
Proof. destruct b; [apply H_named|apply H_imm]. Qed.

Lemma H_body e r w o fa n a n' ra :
  E e r w = Some o -> (depth e <= fa)%nat -> body_g (flat fa) e n = (a, n') -> wfb e = true -> ext r ra ->
  postB e n n' a ra w o.
Proof.
  intros He Hd Hf W X. unfold body_g in Hf. destruct (flat fa e n) as [[bs c] n1] eqn:Fe. injection Hf as <- <-.
  pose proof (IHE e r w o He fa n bs c n1 ra Hd Fe W X) as P.
  destruct o as [v r2 w2|wf]; cbn [post postB] in *.
  - destruct P as [ra1 [w1 [ra2 [R [C [X2 [L F]]]]]]]. exists ra2. split; [|split; [exact X2|split; [exact L|exact F]]].
    eapply eva_wrap_ok; [exact R|]. apply EA_ret. exact C.
  - destruct P as [R|[ra1 [w1 [R C]]]].
    + apply eva_wrap_fail. exact R.
    + eapply eva_wrap_ok; [exact R|]. apply EA_ret. exact C.
Qed.

Lemma H_list fa es : forall r w lo n bs l n' ra,
  eval_list_g E es r w = Some lo -> (dl es <= fa)%nat -> flat_list_g (flat fa) es n = (bs, l, n') -> wf_ops es = true -> ext r ra ->
  postL es n n' bs l ra w lo.
Proof.
  induction es as [|h t IHt]; intros r w lo n bs l n' ra He Hd Hf W X.
  - cbn in He, Hf. injection He as <-. injection Hf as <- <- <-. cbn.
    exists ra. split; [apply RB_nil|split; [reflexivity|split; [exact X|split; [lia|split; [apply frame_refl|reflexivity]]]]].
  - cbn [eval_list_g] in He. cbn [flat_list_g] in Hf. cbn [dl] in Hd.
    rewrite wf_ops_cons in W. apply andb_prop in W. destruct W as [W W3]. apply andb_prop in W. destruct W as [W1 W2].
    destruct (flat_imm_g (flat fa) h n) as [[b1 i] n1] eqn:Fh.
    destruct (flat_list_g (flat fa) t n1) as [[b2 rl] n2] eqn:Ft. injection Hf as <- <- <-.
    destruct (E h r w) as [[v r1 w1|wf]|] eqn:Eh; [| |discriminate He].
    + pose proof (H_imm h r w _ fa n b1 i n1 ra Eh ltac:(lia) Fh W1 X) as P. cbn [postI] in P.
      destruct P as [ra1 [R1 [I1 [X1 [L1 [F1 K1]]]]]].
      destruct (eval_list_g E t r1 w1) as [[vs r2 w2|wf]|] eqn:Et; [| |discriminate He].
      * injection He as <-.
        pose proof (IHt r1 w1 _ n1 b2 rl n2 ra1 Et ltac:(unfold dl in *; lia) Ft W3 X1) as Q. cbn [postL] in Q.
        destruct Q as [ra2 [R2 [I2 [X2 [L2 [F2 Len]]]]]]. cbn [postL].
        exists ra2. split; [eapply runb_app_ok; eassumption|split; [|split; [exact X2|split; [lia|split; [|cbn; rewrite Len; reflexivity]]]]].
        -- cbn [imvs]. rewrite I2.
           rewrite (imv_stable h n n1 i n1 n2 (bnds t) ra1 ra2 v K1 W1 ltac:(lia) F2); [reflexivity| |apply bnds_not_temp; exact W3|exact I1].
           intros x ->. cbn in W2. apply mem_false. destruct (mem x (bnds t)); [discriminate W2|reflexivity].
        -- change (bnds (h :: t)) with (bnd h ++ bnds t).
           eapply frame_trans; [exact L1|exact L2| | |exact F1|exact F2]; [apply incl_appl|apply incl_appr]; apply incl_refl.
      * injection He as <-. pose proof (IHt r1 w1 _ n1 b2 rl n2 ra1 Et ltac:(unfold dl in *; lia) Ft W3 X1) as Q. cbn [postL] in *.
        eapply runb_app_ok; eassumption.
    + injection He as <-. pose proof (H_imm h r w _ fa n b1 i n1 ra Eh ltac:(lia) Fh W1 X) as P. cbn [postI postL] in *.
      apply runb_app_fail. exact P.
Qed.


Lemma op_finish d vs r1 ra2 w1 c bs ra w n n' B o :
  runb bs ra w (BOk ra2 w1) -> evc c ra2 w1 (do_op d vs ra2 w1) -> ext r1 ra2 -> n <= n' -> frame n n' B ra ra2 ->
  o = do_op d vs r1 w1 -> post B n n' bs c ra w o.
Proof.
  intros R C X L F ->. unfold do_op in *. destruct (oper d vs w1) as [[v|] w'] eqn:O; cbn [post].
  - exists ra2, w1, ra2. repeat split; assumption.
  - right. exists ra2, w1. split; assumption.
Qed.

Lemma op_list_post fa d es r w o n bs l n' ra c :
  op_list_g E d es r w = Some o -> (dl es <= fa)%nat -> flat_list_g (flat fa) es n = (bs, l, n') -> wf_ops es = true -> ext r ra ->
  (forall r0 w0 vs, imvs r0 l = Some vs -> evc c r0 w0 (do_op d vs r0 w0)) ->
  post (bnds es) n n' bs c ra w o.
Proof.
  intros He Hd Hf W X Rule. unfold op_list_g in He.
  destruct (eval_list_g E es r w) as [[vs r1 w1|wf]|] eqn:El; [| |discriminate He]; injection He as <-.
  - pose proof (H_list fa es r w _ n bs l n' ra El Hd Hf W X) as P. cbn [postL] in P.
    destruct P as [ra2 [R [I [X2 [L [F _]]]]]].
    eapply op_finish; [exact R|apply Rule; exact I|exact X2|exact L|exact F|reflexivity].
  - pose proof (H_list fa es r w _ n bs l n' ra El Hd Hf W X) as P. cbn [postL post] in *. left. exact P.
Qed.

(** one operand *)
Lemma op_one_post fa d x r w o n b1 i n1 ra c :
  op_list_g E d [x] r w = Some o -> (depth x <= fa)%nat -> flat_imm_g (flat fa) x n = (b1, i, n1) -> wfb x = true -> ext r ra ->
  (forall r0 w0 v, imv r0 i = Some v -> evc c r0 w0 (do_op d [v] r0 w0)) ->
  post (bnd x) n n1 b1 c ra w o.
Proof.
  intros He Hd Hf W X Rule. unfold op_list_g in He. cbn [eval_list_g] in He.
  destruct (E x r w) as [[v r1 w1|wf]|] eqn:Ex; [| |discriminate He]; injection He as <-.
  - pose proof (H_imm x r w _ fa n b1 i n1 ra Ex Hd Hf W X) as P. cbn [postI] in P.
    destruct P as [ra2 [R [I [X2 [L [F _]]]]]].
    eapply op_finish; [exact R|apply Rule; exact I|exact X2|exact L|exact F|reflexivity].
  - pose proof (H_imm x r w _ fa n b1 i n1 ra Ex Hd Hf W X) as P. cbn [postI post] in *. left. exact P.
Qed.

End Step.

Lemma select_arms fa arms : forall d vs b n aa n2 da n3,
  select_l arms d vs = Some b -> farms_g (flat fa) arms n = (aa, n2) ->
  (match d, da with Some x, Some xa => body_g (flat fa) x n2 = (xa, n3) | None, None => n3 = n2 | _, _ => False end) ->
  exists a m m', select_a aa da vs = Some a /\ body_g (flat fa) b m = (a, m') /\ n <= m /\ m' <= n3 /\
    (In b (map snd arms) \/ d = Some b).
Proof.
  induction arms as [|[p x] r IHr]; intros d vs b n aa n2 da n3 Hs Hf Hd.
  - cbn in Hs, Hf. injection Hf as <- <-. subst d. destruct da as [xa|]; [|contradiction].
    exists xa, n, n3. cbn. split; [reflexivity|split; [exact Hd|split; [lia|split; [lia|right; reflexivity]]]].
  - cbn [farms_g] in Hf. destruct (body_g (flat fa) x n) as [ab n1] eqn:Bx. destruct (farms_g (flat fa) r n1) as [rr n4] eqn:Fr.
    injection Hf as <- <-. cbn [select_l] in Hs. cbn [select_a].
    change ((fix go (l : list (imm * lexpr)) : option lexpr := match l with [] => d | (p0, b0) :: r0 => if pat_match p0 vs then Some b0 else go r0 end) r) with (select_l r d vs) in Hs.
    change ((fix go (l : list (imm * aexpr)) : option aexpr := match l with [] => da | (p0, b0) :: r0 => if pat_match p0 vs then Some b0 else go r0 end) rr) with (select_a rr da vs).
    pose proof (body_mono (flat fa) (flat_mono fa) _ _ _ _ Bx) as Ln.
    pose proof (arms_mono (flat fa) (flat_mono fa) _ _ _ _ Fr) as Lr.
    assert (L3 : n4 <= n3).
    { destruct d as [dx|], da as [xa|]; try contradiction; [apply (body_mono (flat fa) (flat_mono fa)) in Hd; exact Hd|lia]. }
    destruct (pat_match p vs).
    + injection Hs as <-. exists ab, n, n1. split; [reflexivity|split; [exact Bx|split; [lia|split; [lia|left; left; reflexivity]]]].
    + destruct (IHr d vs b n1 rr n4 da n3 Hs Fr Hd) as [a [m [m' [S1 [S2 [S3 [S5 S4]]]]]]].
      exists a, m, m'. split; [exact S1|split; [exact S2|split; [lia|split; [exact S5|destruct S4 as [S4|S4]; [left; right; exact S4|right; exact S4]]]]].
Qed.

(** binders, depth and well-formedness of a selected arm *)
Lemma arm_facts arms d b : In b (map snd arms) \/ d = Some b ->
  (incl (bnd b) (bnd_arms arms ++ match d with Some x => bnd x | None => [] end)) /\
  (wf_arms arms = true -> match d with Some x => wfb x = true | None => True end -> wfb b = true) /\
  (forall k, ((fix go (l : list (imm * lexpr)) : nat := match l with [] => 0%nat | (_, b0) :: r => Nat.max (depth b0) (go r) end) arms <= k)%nat ->
             (match d with Some x => depth x | None => 0%nat end <= k)%nat -> (depth b <= k)%nat).
Proof.
  intros [Hin| ->].
  - induction arms as [|[p x] r IHr]; [destruct Hin|]. cbn [map snd] in Hin. destruct Hin as [<-|Hin].
    + split; [|split].
      * cbn [bnd_arms]. intros y Hy. apply in_or_app. left. apply in_or_app. left. exact Hy.
      * intros W _. cbn [wf_arms] in W. apply andb_prop in W. tauto.
      * intros k Hk _. lia.
    + destruct (IHr Hin) as [I1 [I2 I3]]. split; [|split].
      * cbn [bnd_arms]. intros y Hy. apply I1 in Hy. apply in_app_or in Hy. apply in_or_app.
        destruct Hy as [Hy|Hy]; [left; apply in_or_app; right; exact Hy|right; exact Hy].
      * intros W Wd. cbn [wf_arms] in W. apply andb_prop in W. apply I2; tauto.
      * intros k Hk Hd. apply I3; [lia|exact Hd].
  - split; [|split].
    + intros y Hy. apply in_or_app. right. exact Hy.
    + intros _ Wd. exact Wd.
    + intros k _ Hd. exact Hd.
Qed.


Lemma frame_same n n' B ra ra1 ra2 : frame n n' B ra ra1 -> frame n n' B ra1 ra2 -> frame n n' B ra ra2.
Proof. intros F1 F2 x A1 A2. rewrite (F2 x A1 A2). apply F1; assumption. Qed.

Lemma flat_list_len fa es : forall n bs l n', flat_list_g (flat fa) es n = (bs, l, n') -> length l = length es.
Proof.
  induction es as [|h t IH]; intros n bs l n' H; cbn [flat_list_g] in H.
  - injection H as _ <- _. reflexivity.
  - destruct (flat_imm_g (flat fa) h n) as [[b1 i] n1]. destruct (flat_list_g (flat fa) t n1) as [[b2 r] n2] eqn:Ft.
    injection H as _ <- _. cbn. f_equal. eapply IH. exact Ft.
Qed.

Lemma runb_nil_inv r w res : runb [] r w res -> res = BOk r w.
Proof. intro H. inversion H. reflexivity. Qed.

Ltac split_and W := repeat match type of W with _ && _ = true => let W' := fresh W in apply andb_prop in W; destruct W as [W W'] end.

Theorem flat_correct : forall fs e r w o, eval_l fs e r w = Some o ->
  forall fa n bs c n' ra, (depth e <= fa)%nat -> flat fa e n = (bs, c, n') -> wfb e = true -> ext r ra ->
  post (bnd e) n n' bs c ra w o.
Proof.
  induction fs as [|fs IH]; intros e r w o He fa n bs c n' ra Hd Hf W X; [discriminate He|].
  rewrite eval_S in He. cbv zeta in He.
  destruct fa as [|fa]; [destruct e; cbn in Hd; lia|].
  pose proof Hf as Hf0. rewrite flat_S in Hf. cbv zeta in Hf.
  pose proof (H_imm (eval_l fs) IH) as HI. pose proof (H_either (eval_l fs) IH) as HE.
  pose proof (H_body (eval_l fs) IH) as HB. pose proof (op_list_post (eval_l fs) IH) as OL.
  pose proof (op_one_post (eval_l fs) IH) as O1.
  pose proof (body_mono (flat fa) (flat_mono fa)) as BM.
  destruct e as [x|p cls|ix|k args|items|items|x v b|cnd t f|cnd b|e0|s arms default|e0 k ix|op e0|op l r0|f args|tr e0|tr m rv args|e0 ix];
    cbn [depth] in Hd; cbn [bnd].
  - (* variable *)
    injection Hf as <- <- <-. destruct (look r x) as [v|] eqn:Lk; [|discriminate He]. injection He as <-. cbn [wfb] in W.
    cbn [post]. exists ra, w, ra. split; [apply RB_nil|split; [|split; [exact X|split; [lia|apply frame_refl]]]].
    apply EC_imm. cbn. rewrite (look_ext r ra x X); [exact Lk|]. destruct (is_temp x); [discriminate W|reflexivity].
  - injection Hf as <- <- <-. injection He as <-. cbn [post]. exists ra, w, ra.
    split; [apply RB_nil|split; [apply EC_imm; reflexivity|split; [exact X|split; [lia|apply frame_refl]]]].
  - injection Hf as <- <- <-. injection He as <-. cbn [post]. exists ra, w, ra.
    split; [apply RB_nil|split; [apply EC_imm; reflexivity|split; [exact X|split; [lia|apply frame_refl]]]].
  - (* constructor *)
    destruct (flat_list_g (flat fa) args n) as [[bs0 a] n1] eqn:Fl. injection Hf as <- <- <-.
    apply (OL fa _ args r w o n bs0 a n1 ra _ He ltac:(unfold dl; lia) Fl W X).
    intros r0 w0 vs I. rewrite <- (flat_list_len fa args _ _ _ _ Fl). apply EC_constr. exact I.
  - destruct (flat_list_g (flat fa) items n) as [[bs0 a] n1] eqn:Fl. injection Hf as <- <- <-.
    apply (OL fa _ items r w o n bs0 a n1 ra _ He ltac:(unfold dl; lia) Fl W X).
    intros r0 w0 vs I. rewrite <- (flat_list_len fa items _ _ _ _ Fl). apply EC_tuple. exact I.
  - destruct (flat_list_g (flat fa) items n) as [[bs0 a] n1] eqn:Fl. injection Hf as <- <- <-.
    apply (OL fa _ items r w o n bs0 a n1 ra _ He ltac:(unfold dl; lia) Fl W X).
    intros r0 w0 vs I. rewrite <- (flat_list_len fa items _ _ _ _ Fl). apply EC_array. exact I.
  - (* let *)
    cbn [wfb] in W. split_and W.
    destruct (flat fa v n) as [[b1 c1] n1] eqn:F1. destruct (flat fa b n1) as [[b2 c2] n2] eqn:F2. injection Hf as <- <- <-.
    destruct (eval_l fs v r w) as [[vv r1 w1|wf]|] eqn:Ev; [| |discriminate He].
    + pose proof (IH v r w _ Ev fa n b1 c1 n1 ra ltac:(lia) F1 W1 X) as P. cbn [post] in P.
      destruct P as [ra1a [w1a [ra1 [R1 [C1 [X1 [L1 Fr1]]]]]]].
      pose proof (IH b _ w1 o He fa n1 b2 c2 n2 (upd ra1 x vv) ltac:(lia) F2 W0 (ext_upd _ _ x vv X1)) as Q.
      assert (Fmid : frame n n1 (x :: bnd v ++ bnd b) ra (upd ra1 x vv)).
      { apply frame_upd; [|left; left; reflexivity]. eapply frame_weaken; [| | |exact Fr1]; [lia|lia|].
        intros y Hy. right. apply in_or_app. left. exact Hy. }
      destruct o as [v2 r2 w2|wf]; cbn [post] in *.
      * destruct Q as [rb1 [wb1 [rb2 [R2 [C2 [X2 [L2 Fr2]]]]]]]. exists rb1, wb1, rb2.
        split; [eapply runb_app_ok; [exact R1|eapply RB_cons; [exact C1|exact R2]]|split; [exact C2|split; [exact X2|split; [lia|]]]].
        eapply frame_trans; [exact L1|exact L2|apply incl_refl| |exact Fmid|exact Fr2].
        intros y Hy. right. apply in_or_app. right. exact Hy.
      * destruct Q as [R2|[rb1 [wb1 [R2 C2]]]].
        -- left. eapply runb_app_ok; [exact R1|eapply RB_cons; [exact C1|exact R2]].
        -- right. exists rb1, wb1. split; [eapply runb_app_ok; [exact R1|eapply RB_cons; [exact C1|exact R2]]|exact C2].
    + injection He as <-. pose proof (IH v r w _ Ev fa n b1 c1 n1 ra ltac:(lia) F1 W1 X) as P. cbn [post] in *.
      left. destruct P as [R|[ra1 [w1 [R C]]]]; [apply runb_app_fail; exact R|].
      eapply runb_app_ok; [exact R|apply RB_fail; exact C].
  - (* if *)
    cbn [wfb] in W. split_and W.
    destruct (flat_imm_g (flat fa) cnd n) as [[b1 ci] n1] eqn:F1. destruct (body_g (flat fa) t n1) as [ta n2] eqn:F2.
    destruct (body_g (flat fa) f n2) as [fa0 n3] eqn:F3. injection Hf as <- <- <-.
    pose proof (BM _ _ _ _ F2) as M2. pose proof (BM _ _ _ _ F3) as M3.
    destruct (eval_l fs cnd r w) as [[vc r1 w1|wf]|] eqn:Ec; [| |discriminate He].
    + pose proof (HI cnd r w _ fa n b1 ci n1 ra Ec ltac:(lia) F1 W X) as P. cbn [postI] in P.
      destruct P as [ra1 [R1 [I1 [X1 [L1 [Fr1 _]]]]]].
      destruct (truth vc) as [bb|] eqn:Tr; [|discriminate He].
      destruct bb.
      * pose proof (HB t r1 w1 o fa n1 ta n2 ra1 He ltac:(lia) F2 W1 X1) as Q.
        destruct o as [v2 r2 w2|wf]; cbn [post postB] in *.
        -- destruct Q as [ra2 [A2 [X2 [L2 Fr2]]]]. exists ra1, w1, ra2.
           split; [exact R1|split; [eapply EC_if; [exact I1|exact Tr|exact A2]|split; [exact X2|split; [lia|]]]].
           eapply frame_trans; [exact L1| | | |exact Fr1|eapply frame_weaken; [| | |exact Fr2]]; try apply incl_refl; try lia.
           ++ apply incl_appl. apply incl_refl.
           ++ apply incl_appr. apply incl_appl. apply incl_refl.
        -- right. exists ra1, w1. split; [exact R1|eapply EC_if; [exact I1|exact Tr|exact Q]].
      * pose proof (HB f r1 w1 o fa n2 fa0 n3 ra1 He ltac:(lia) F3 W0 X1) as Q.
        destruct o as [v2 r2 w2|wf]; cbn [post postB] in *.
        -- destruct Q as [ra2 [A2 [X2 [L2 Fr2]]]]. exists ra1, w1, ra2.
           split; [exact R1|split; [eapply EC_if; [exact I1|exact Tr|exact A2]|split; [exact X2|split; [lia|]]]].
           eapply frame_trans; [exact L1| | | |exact Fr1|eapply frame_weaken; [| | |exact Fr2]]; try apply incl_refl; try lia.
           ++ apply incl_appl. apply incl_refl.
           ++ apply incl_appr. apply incl_appr. apply incl_refl.
        -- right. exists ra1, w1. split; [exact R1|eapply EC_if; [exact I1|exact Tr|exact Q]].
    + injection He as <-. pose proof (HI cnd r w _ fa n b1 ci n1 ra Ec ltac:(lia) F1 W X) as P. cbn [postI post] in *. left. exact P.
  - (* while *)
    pose proof W as W00. cbn [wfb] in W. split_and W.
    destruct (body_g (flat fa) cnd n) as [ca n1] eqn:F1. destruct (body_g (flat fa) b n1) as [ba n2] eqn:F2. injection Hf as <- <- <-.
    pose proof (BM _ _ _ _ F1) as M1. pose proof (BM _ _ _ _ F2) as M2.
    destruct (eval_l fs cnd r w) as [[vc r1 w1|wf]|] eqn:Ec; [| |discriminate He].
    + pose proof (HB cnd r w _ fa n ca n1 ra Ec ltac:(lia) F1 W X) as P. cbn [postB] in P.
      destruct P as [ra1 [A1 [X1 [L1 Fr1]]]].
      destruct (truth vc) as [[|]|] eqn:Tr; [| |discriminate He].
      * destruct (eval_l fs b r1 w1) as [[vb r2 w2|wf]|] eqn:Eb; [| |discriminate He].
        -- pose proof (HB b r1 w1 _ fa n1 ba n2 ra1 Eb ltac:(lia) F2 W0 X1) as Q. cbn [postB] in Q.
           destruct Q as [ra2 [A2 [X2 [L2 Fr2]]]].
           pose proof (IH (LWhile cnd b) r2 w2 o He (S fa) n [] (CWhile ca ba) n2 ra2 ltac:(cbn [depth]; lia) Hf0 W00 X2) as Z.
           assert (F12 : frame n n2 (bnd cnd ++ bnd b) ra ra2).
           { eapply frame_trans; [exact L1|exact L2| | |exact Fr1|exact Fr2]; [apply incl_appl|apply incl_appr]; apply incl_refl. }
           destruct o as [v3 r3 w3|wf]; cbn [post bnd] in *.
           ++ destruct Z as [rz [wz [ra3 [Rz [Cz [X3 [L3 Fr3]]]]]]]. apply runb_nil_inv in Rz. injection Rz as -> ->.
              exists ra, w, ra3. split; [apply RB_nil|split; [eapply EC_while_step; [exact A1|exact Tr|exact A2|exact Cz]|split; [exact X3|split; [lia|]]]].
              eapply frame_same; [exact F12|exact Fr3].
           ++ destruct Z as [Rz|[rz [wz [Rz Cz]]]]; [apply runb_nil_inv in Rz; discriminate Rz|].
              apply runb_nil_inv in Rz. injection Rz as -> ->.
              right. exists ra, w. split; [apply RB_nil|eapply EC_while_step; [exact A1|exact Tr|exact A2|exact Cz]].
        -- injection He as <-. pose proof (HB b r1 w1 _ fa n1 ba n2 ra1 Eb ltac:(lia) F2 W0 X1) as Q. cbn [postB post] in *.
           right. exists ra, w. split; [apply RB_nil|eapply EC_while_failb; [exact A1|exact Tr|exact Q]].
      * injection He as <-. cbn [post]. exists ra, w, ra1.
        split; [apply RB_nil|split; [eapply EC_while_done; [exact A1|exact Tr]|split; [exact X1|split; [lia|]]]].
        eapply frame_weaken; [| | |exact Fr1]; [lia|lia|apply incl_appl; apply incl_refl].
    + injection He as <-. pose proof (HB cnd r w _ fa n ca n1 ra Ec ltac:(lia) F1 W X) as P. cbn [postB post] in *.
      right. exists ra, w. split; [apply RB_nil|apply EC_while_failc; exact P].
  - (* go *)
    destruct (flat_imm_g (flat fa) e0 n) as [[b1 i] n1] eqn:F1. injection Hf as <- <- <-.
    apply (O1 fa _ e0 r w o n b1 i n1 ra _ He ltac:(lia) F1 W X). intros r0 w0 v I. apply EC_go. exact I.
  - (* match *)
    cbn [wfb] in W. split_and W.
    destruct (flat_imm_g (flat fa) s n) as [[b1 si] n1] eqn:F1. destruct (farms_g (flat fa) arms n1) as [aa n2] eqn:F2.
    assert (exists da n3, (match default with Some x => let (xa, m) := body_g (flat fa) x n2 in (Some xa, m) | None => (None, n2) end) = (da, n3) /\
              (match default, da with Some x, Some xa => body_g (flat fa) x n2 = (xa, n3) | None, None => n3 = n2 | _, _ => False end)) as [da [n3 [Ed Hda]]].
    { destruct default as [x|]; [destruct (body_g (flat fa) x n2) as [xa m] eqn:Bx; exists (Some xa), m|exists None, n2]; split; reflexivity. }
    rewrite Ed in Hf. injection Hf as <- <- <-.
    destruct (eval_l fs s r w) as [[vs r1 w1|wf]|] eqn:Es; [| |discriminate He].
    + pose proof (HI s r w _ fa n b1 si n1 ra Es ltac:(lia) F1 W X) as P. cbn [postI] in P.
      destruct P as [ra1 [R1 [I1 [X1 [L1 [Fr1 _]]]]]].
      destruct (select_l arms default vs) as [bsel|] eqn:Sel; [|discriminate He].
      destruct (select_arms fa arms default vs bsel n1 aa n2 da n3 Sel F2 Hda) as [a [m [m' [S1 [S2 [S3 [S4 S5]]]]]]].
      destruct (arm_facts arms default bsel S5) as [AI [AW AD]].
      pose proof (HB bsel r1 w1 o fa m a m' ra1 He
                    ltac:(apply AD; [lia|destruct default; lia]) S2
                    ltac:(apply AW; [exact W1|destruct default; [exact W0|exact I]]) X1) as Q.
      destruct o as [v2 r2 w2|wf]; cbn [post postB] in *.
      * destruct Q as [ra2 [A2 [X2 [L2 Fr2]]]]. exists ra1, w1, ra2.
        split; [exact R1|split; [eapply EC_match; [exact I1|exact S1|exact A2]|split; [exact X2|split; [lia|]]]].
        eapply frame_trans; [exact L1| | | |exact Fr1|eapply frame_weaken; [| | |exact Fr2]]; try apply incl_refl; try lia.
        -- apply incl_appl. apply incl_refl.
        -- apply incl_appr. exact AI.
      * right. exists ra1, w1. split; [exact R1|eapply EC_match; [exact I1|exact S1|exact Q]].
    + injection He as <-. pose proof (HI s r w _ fa n b1 si n1 ra Es ltac:(lia) F1 W X) as P. cbn [postI post] in *. left. exact P.
  - (* get *)
    destruct (flat_imm_g (flat fa) e0 n) as [[b1 i] n1] eqn:F1. injection Hf as <- <- <-.
    apply (O1 fa _ e0 r w o n b1 i n1 ra _ He ltac:(lia) F1 W X). intros r0 w0 v I. apply EC_get. exact I.
  - (* unary *)
    destruct (flat_imm_g (flat fa) e0 n) as [[b1 i] n1] eqn:F1. injection Hf as <- <- <-.
    apply (O1 fa _ e0 r w o n b1 i n1 ra _ He ltac:(lia) F1 W X). intros r0 w0 v I. apply EC_un. exact I.
  - (* binary *)
    cbn [wfb] in W. apply andb_prop in W. destruct W as [Wa Wr]. apply andb_prop in Wa. destruct Wa as [Wl Wo].
    apply andb_prop in Wr. destruct Wr as [Wr _]. apply andb_prop in Wr. destruct Wr as [Wr _].
    destruct ((if name_lhs op l r0 then flat_named_g (flat fa) else flat_imm_g (flat fa)) l n) as [[b1 li] n1] eqn:F1.
    destruct ((if name_rhs op r0 then flat_named_g (flat fa) else flat_imm_g (flat fa)) r0 n1) as [[b2 ri] n2] eqn:F2.
    injection Hf as <- <- <-.
    unfold op_list_g in He. cbn [eval_list_g] in He.
    destruct (eval_l fs l r w) as [[vl r1 w1|wf]|] eqn:El; [| |discriminate He].
    + pose proof (HE _ l r w _ fa n b1 li n1 ra El ltac:(lia) F1 Wl X) as P. cbn [postI] in P.
      destruct P as [ra1 [R1 [I1 [X1 [L1 [Fr1 K1]]]]]].
      destruct (eval_l fs r0 r1 w1) as [[vr r2 w2|wf]|] eqn:Er; [| |discriminate He].
      * injection He as <-.
        pose proof (HE _ r0 r1 w1 _ fa n1 b2 ri n2 ra1 Er ltac:(lia) F2 Wr X1) as Q. cbn [postI] in Q.
        destruct Q as [ra2 [R2 [I2 [X2 [L2 [Fr2 K2]]]]]].
        eapply op_finish; [eapply runb_app_ok; [exact R1|exact R2]| |exact X2|lia| |reflexivity].
        -- apply EC_bin; [|exact I2].
           apply (imv_stable l n n1 li n1 n2 (bnd r0) ra1 ra2 vl K1 Wl ltac:(lia) Fr2); [|apply bnd_not_temp; exact Wr|exact I1].
           intros x ->. cbn in Wo. apply mem_false. rewrite app_nil_r in Wo. destruct (mem x (bnd r0)); [discriminate Wo|reflexivity].
        -- eapply frame_trans; [exact L1|exact L2| | |exact Fr1|exact Fr2]; [apply incl_appl|apply incl_appr]; apply incl_refl.
      * injection He as <-. pose proof (HE _ r0 r1 w1 _ fa n1 b2 ri n2 ra1 Er ltac:(lia) F2 Wr X1) as Q. cbn [postI post] in *.
        left. eapply runb_app_ok; [exact R1|exact Q].
    + injection He as <-. pose proof (HE _ l r w _ fa n b1 li n1 ra El ltac:(lia) F1 Wl X) as P. cbn [postI post] in *.
      left. apply runb_app_fail. exact P.
  - (* call *)
    destruct (flat_imm_g (flat fa) f n) as [[b1 fi] n1] eqn:F1. destruct (flat_list_g (flat fa) args n1) as [[b2 a] n2] eqn:F2.
    injection Hf as <- <- <-.
    assert (Fl : flat_list_g (flat fa) (f :: args) n = (b1 ++ b2, fi :: a, n2)) by (cbn [flat_list_g]; rewrite F1, F2; reflexivity).
    apply (OL fa _ (f :: args) r w o n (b1 ++ b2) (fi :: a) n2 ra _ He ltac:(unfold dl; lia) Fl W X).
    intros r0 w0 vs I. cbn [imvs] in I. destruct (imv r0 fi) as [vf|] eqn:If; [|discriminate I].
    destruct (imvs r0 a) as [vs'|] eqn:Ia; [|discriminate I]. injection I as <-.
    rewrite <- (flat_list_len fa args _ _ _ _ F2). apply EC_call; assumption.
  - (* to dyn *)
    destruct (flat_imm_g (flat fa) e0 n) as [[b1 i] n1] eqn:F1. injection Hf as <- <- <-.
    apply (O1 fa _ e0 r w o n b1 i n1 ra _ He ltac:(lia) F1 W X). intros r0 w0 v I. apply EC_todyn. exact I.
  - (* dyn call *)
    destruct (flat_imm_g (flat fa) rv n) as [[b1 fi] n1] eqn:F1. destruct (flat_list_g (flat fa) args n1) as [[b2 a] n2] eqn:F2.
    injection Hf as <- <- <-.
    assert (Fl : flat_list_g (flat fa) (rv :: args) n = (b1 ++ b2, fi :: a, n2)) by (cbn [flat_list_g]; rewrite F1, F2; reflexivity).
    apply (OL fa _ (rv :: args) r w o n (b1 ++ b2) (fi :: a) n2 ra _ He ltac:(unfold dl; lia) Fl W X).
    intros r0 w0 vs I. cbn [imvs] in I. destruct (imv r0 fi) as [vf|] eqn:If; [|discriminate I].
    destruct (imvs r0 a) as [vs'|] eqn:Ia; [|discriminate I]. injection I as <-.
    rewrite <- (flat_list_len fa args _ _ _ _ F2). apply EC_dyncall; assumption.
  - (* projection *)
    destruct (flat_imm_g (flat fa) e0 n) as [[b1 i] n1] eqn:F1. injection Hf as <- <- <-.
    apply (O1 fa _ e0 r w o n b1 i n1 ra _ He ltac:(lia) F1 W X). intros r0 w0 v I. apply EC_proj. exact I.
Qed.

(** a whole function body: the A-normal form the model builds behaves exactly like the lifted body — same value,
    same final world, the same failure at the same point — and the registers agree except for the temporaries *)
Theorem anf_fn_correct fs fa body n r w o :
  eval_l fs body r w = Some o -> (depth body <= fa)%nat -> wfb body = true ->
  match o with
  | OVal v r2 w2 => exists ra2, eva (fst (anf_fn fa body n)) r w (OVal v ra2 w2) /\ ext r2 ra2
  | OFail wf => eva (fst (anf_fn fa body n)) r w (OFail wf)
  end.
Proof.
  intros He Hd W. rewrite anf_fn_flat. unfold body_g. destruct (flat fa body n) as [[bs c] n1] eqn:F. cbn [fst].
  pose proof (flat_correct fs body r w o He fa n bs c n1 r Hd F W (ext_refl r)) as P.
  destruct o as [v r2 w2|wf]; cbn [post] in P.
  - destruct P as [ra1 [w1 [ra2 [R [C [X _]]]]]]. exists ra2. split; [|exact X].
    eapply eva_wrap_ok; [exact R|]. apply EA_ret. exact C.
  - destruct P as [R|[ra1 [w1 [R C]]]]; [apply eva_wrap_fail; exact R|].
    eapply eva_wrap_ok; [exact R|]. apply EA_ret. exact C.
Qed.

End Sem.
