(** C09 — proof that the A-normalisation model keeps the order, multiplicity and branch structure of operations *)
From Goml Require Import Common.Base C09.Anf C09.Order.
Open Scope N_scope.

(** the local helper functions of [anf], over an arbitrary recursive call *)
Section Helpers.
Variable A : lexpr -> N -> K -> aexpr * N.

Definition anf_named_g (e : lexpr) (n : N) (k : KI) : aexpr * N :=
  let name := tname n in
  A e (n + 1) (fun c n' => let (body, n'') := k (IVar name) n' in (ALet name c body, n'')).

Definition anf_imm_g (e : lexpr) (n : N) (k : KI) : aexpr * N :=
  match e with
  | LVar x => k (IVar x) n
  | LPrim p _ => k (IPrim p) n
  | _ => anf_named_g e n k
  end.

Definition anf_list_g := fix go (es : list lexpr) (n : N) (k : KL) {struct es} : aexpr * N :=
  match es with
  | [] => k [] n
  | h :: t => anf_imm_g h n (fun ih n' => go t n' (fun it n'' => k (ih :: it) n''))
  end.

Definition arms_g := fix go (arms : list (imm * lexpr)) (n : N) {struct arms} : list (imm * aexpr) * N :=
  match arms with
  | [] => ([], n)
  | (p, b) :: r => let (ab, n1) := A b n ret in let (rr, n2) := go r n1 in ((p, ab) :: rr, n2)
  end.
End Helpers.

Lemma anf_S fuel e n k : anf (S fuel) e n k =
  let A := anf fuel in
  match e with
  | LVar x => k (CImm (IVar x)) n
  | LPrim p _ => k (CImm (IPrim p)) n
  | LTag i => k (CImm (ITag i)) n
  | LConstr c args => anf_list_g A args n (fun a n' => k (CConstr c a) n')
  | LTuple items => anf_list_g A items n (fun a n' => k (CTuple a) n')
  | LArray items => anf_list_g A items n (fun a n' => k (CArray a) n')
  | LLet x v b => A v n (fun ve n' => let (body, n'') := A b n' k in (ALet x ve body, n''))
  | LIf c t f =>
      anf_imm_g A c n (fun ci n1 =>
        let (ta, n2) := A t n1 ret in
        let (fa, n3) := A f n2 ret in
        k (CIf ci ta fa) n3)
  | LWhile c b =>
      let (ca, n1) := A c n ret in
      let (ba, n2) := A b n1 ret in
      k (CWhile ca ba) n2
  | LGo x => anf_imm_g A x n (fun i n' => k (CGo i) n')
  | LMatch s arms d =>
      anf_imm_g A s n (fun si n1 =>
        let (aa, n2) := arms_g A arms n1 in
        let (da, n3) := match d with Some x => let (xa, m) := A x n2 ret in (Some xa, m) | None => (None, n2) end in
        k (CMatch si aa da) n3)
  | LGet x c i => anf_imm_g A x n (fun a n' => k (CGet a c i) n')
  | LUn op x => anf_imm_g A x n (fun a n' => k (CUn op a) n')
  | LBin op l r =>
      (if name_lhs op l r then anf_named_g A else anf_imm_g A) l n (fun li n1 =>
        (if name_rhs op r then anf_named_g A else anf_imm_g A) r n1 (fun ri n2 => k (CBin op li ri) n2))
  | LCall f args => anf_imm_g A f n (fun fi n1 => anf_list_g A args n1 (fun a n2 => k (CCall fi a) n2))
  | LToDyn tr x => anf_imm_g A x n (fun a n' => k (CToDyn tr a) n')
  | LDynCall tr m recv args => anf_imm_g A recv n (fun ri n1 => anf_list_g A args n1 (fun a n2 => k (CDynCall tr m ri a) n2))
  | LProj x i => anf_imm_g A x n (fun a n' => k (CProj a i) n')
  end.
Proof. reflexivity. Qed.

(** what a continuation does with the operation it receives: it performs it first, then [tail] *)
Definition Kok (k : K) (tail : list ev) : Prop := forall c n, ord_a (fst (k c n)) = ord_c c ++ tail.
Definition KIok (k : KI) (tail : list ev) : Prop := forall i n, ord_a (fst (k i n)) = tail.
Definition KLok (k : KL) (len : nat) (tail : list ev) : Prop := forall l n, length l = len -> ord_a (fst (k l n)) = tail.

Lemma ret_ok : Kok ret [].
Proof. intros c n. cbn. rewrite app_nil_r. reflexivity. Qed.

Definition ords (l : list lexpr) : list ev :=
  (fix ords (l : list lexpr) : list ev := match l with [] => [] | x :: r => ord_src x ++ ords r end) l.
Definition dl (l : list lexpr) : nat :=
  (fix dl (l : list lexpr) : nat := match l with [] => 0%nat | x :: r => Nat.max (depth x) (dl r) end) l.

Section Step.
Variable A : lexpr -> N -> K -> aexpr * N.
Variable f : nat.
Hypothesis IH : forall e, (depth e <= f)%nat -> forall n k tail, Kok k tail -> ord_a (fst (A e n k)) = ord_src e ++ tail.

Lemma named_ok e : (depth e <= f)%nat -> forall n k tail, KIok k tail ->
  ord_a (fst (anf_named_g A e n k)) = ord_src e ++ tail.
Proof.
  intros Hd n k tail Hk. unfold anf_named_g.
  apply IH; [exact Hd|]. intros c n'. specialize (Hk (IVar (tname n)) n'). destruct (k (IVar (tname n)) n') as [body n'']. cbn in *. rewrite Hk. reflexivity.
Qed.

Lemma imm_ok e : (depth e <= f)%nat -> forall n k tail, KIok k tail ->
  ord_a (fst (anf_imm_g A e n k)) = ord_src e ++ tail.
Proof.
  intros Hd n k tail Hk.
  pose proof (named_ok e Hd n k tail Hk) as G.
  destruct e; try exact G; cbn; apply Hk.
Qed.

(** either way of turning an operand into an immediate *)
Lemma either_ok (b : bool) e : (depth e <= f)%nat -> forall n k tail, KIok k tail ->
  ord_a (fst ((if b then anf_named_g A else anf_imm_g A) e n k)) = ord_src e ++ tail.
Proof. destruct b; [apply named_ok|apply imm_ok]. Qed.

Lemma list_ok es : (dl es <= f)%nat -> forall n k tail, KLok k (length es) tail ->
  ord_a (fst (anf_list_g A es n k)) = ords es ++ tail.
Proof.
  induction es as [|h t IHt]; intros Hd n k tail Hk.
  - cbn. apply Hk. reflexivity.
  - cbn [anf_list_g]. cbn [dl] in Hd. change (ords (h :: t)) with (ord_src h ++ ords t). rewrite <- app_assoc.
    apply imm_ok; [lia|]. intros ih n'. apply IHt; [unfold dl in *; lia|]. intros it n'' Hl. apply Hk. cbn. rewrite Hl. reflexivity.
Qed.

Lemma arms_ok arms : forall n,
  ((fix go (l : list (imm * lexpr)) : nat := match l with [] => 0%nat | (_, b) :: r => Nat.max (depth b) (go r) end) arms <= f)%nat ->
  (fix go (l : list (imm * aexpr)) : list (list ev) := match l with [] => [] | (_, b) :: r => ord_a b :: go r end) (fst (arms_g A arms n)) =
  (fix go (l : list (imm * lexpr)) : list (list ev) := match l with [] => [] | (_, b) :: r => ord_src b :: go r end) arms.
Proof.
  induction arms as [|[p b] r IHr]; intros n Hd; [reflexivity|].
  cbn [arms_g]. pose proof (IH b ltac:(lia) n ret [] ret_ok) as Hb.
  destruct (A b n ret) as [ab n1]. specialize (IHr n1 ltac:(lia)). destruct (arms_g A r n1) as [rr n2].
  cbn [fst] in *. rewrite app_nil_r in Hb. rewrite Hb, IHr. reflexivity.
Qed.
End Step.

Theorem anf_keeps_order : forall fuel e, (depth e <= fuel)%nat ->
  forall n k tail, Kok k tail -> ord_a (fst (anf fuel e n k)) = ord_src e ++ tail.
Proof.
  induction fuel as [|f IH]; intros e Hd n k tail Hk; [destruct e; cbn in Hd; lia|].
  rewrite anf_S. cbv zeta.
  pose proof (imm_ok (anf f) f IH) as IM. pose proof (either_ok (anf f) f IH) as EI. pose proof (list_ok (anf f) f IH) as LI. pose proof (arms_ok (anf f) f IH) as AR.
  destruct e; cbn [depth] in Hd; cbn [ord_src].
  - apply Hk.
  - apply Hk.
  - apply Hk.
  - (* constr *) rewrite <- app_assoc. apply LI; [unfold dl; lia|]. intros l n' Hl. rewrite Hk. cbn [ord_c]. rewrite Hl. reflexivity.
  - rewrite <- app_assoc. apply LI; [unfold dl; lia|]. intros l n' Hl. rewrite Hk. cbn [ord_c]. rewrite Hl. reflexivity.
  - rewrite <- app_assoc. apply LI; [unfold dl; lia|]. intros l n' Hl. rewrite Hk. cbn [ord_c]. rewrite Hl. reflexivity.
  - (* let *) rewrite <- app_assoc. apply IH; [lia|]. intros ve n'.
    pose proof (IH e2 ltac:(lia) n' k tail Hk) as Hb. destruct (anf f e2 n' k) as [body n'']. cbn [fst ord_a] in *. rewrite Hb. reflexivity.
  - (* if *) rewrite <- app_assoc. apply IM; [lia|]. intros ci n1.
    pose proof (IH e2 ltac:(lia) n1 ret [] ret_ok) as Ht. destruct (anf f e2 n1 ret) as [ta n2].
    pose proof (IH e3 ltac:(lia) n2 ret [] ret_ok) as Hf. destruct (anf f e3 n2 ret) as [fa n3].
    cbn [fst] in *. rewrite app_nil_r in *. rewrite Hk. cbn [ord_c]. rewrite Ht, Hf. reflexivity.
  - (* while *)
    pose proof (IH e1 ltac:(lia) n ret [] ret_ok) as Hc. destruct (anf f e1 n ret) as [ca n1].
    pose proof (IH e2 ltac:(lia) n1 ret [] ret_ok) as Hb. destruct (anf f e2 n1 ret) as [ba n2].
    cbn [fst] in *. rewrite app_nil_r in *. rewrite Hk. cbn [ord_c]. rewrite Hc, Hb. reflexivity.
  - (* go *) rewrite <- app_assoc. apply IM; [lia|]. intros im n'. rewrite Hk. reflexivity.
  - (* match *) rewrite <- app_assoc. apply IM; [lia|]. intros si n1.
    pose proof (AR arms n1 ltac:(lia)) as Ha. destruct (arms_g (anf f) arms n1) as [aa n2]. cbn [fst] in Ha.
    destruct default as [x|].
    + pose proof (IH x ltac:(lia) n2 ret [] ret_ok) as Hx. destruct (anf f x n2 ret) as [xa m]. cbn [fst] in *. rewrite app_nil_r in Hx.
      rewrite Hk. cbn [ord_c]. rewrite Ha, Hx. reflexivity.
    + rewrite Hk. cbn [ord_c]. rewrite Ha. reflexivity.
  - rewrite <- app_assoc. apply IM; [lia|]. intros im n'. rewrite Hk. reflexivity.
  - rewrite <- app_assoc. apply IM; [lia|]. intros im n'. rewrite Hk. reflexivity.
  - (* bin *) rewrite <- !app_assoc. apply EI; [lia|]. intros li n1. apply EI; [lia|]. intros ri n2. rewrite Hk. reflexivity.
  - (* call *) rewrite <- !app_assoc. apply IM; [lia|]. intros fi n1. apply LI; [unfold dl; lia|]. intros l n2 Hl. rewrite Hk. cbn [ord_c]. rewrite Hl. reflexivity.
  - rewrite <- app_assoc. apply IM; [lia|]. intros im n'. rewrite Hk. reflexivity.
  - (* dyn call *) rewrite <- !app_assoc. apply IM; [lia|]. intros fi n1. apply LI; [unfold dl; lia|]. intros l n2 Hl. rewrite Hk. cbn [ord_c]. rewrite Hl. reflexivity.
  - rewrite <- app_assoc. apply IM; [lia|]. intros im n'. rewrite Hk. reflexivity.
Qed.

(** a whole function body *)
Corollary anf_fn_keeps_order fuel body n : (depth body <= fuel)%nat -> ord_a (fst (anf_fn fuel body n)) = ord_src body.
Proof. intros H. unfold anf_fn. rewrite (anf_keeps_order fuel body H n ret [] ret_ok). apply app_nil_r. Qed.
