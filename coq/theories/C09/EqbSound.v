(** C09 — the boolean equalities used by the correspondence check decide Leibniz equality *)
From Goml Require Import Common.Base C09.Anf C09.Order C09.Eqb.
Open Scope N_scope.

Lemma imm_eqb_sound a b : imm_eqb a b = true -> a = b.
Proof.
  destruct a, b; cbn; intro H; try discriminate H.
  - apply list_eqb_spec in H. congruence.
  - apply list_eqb_spec in H. congruence.
  - apply N.eqb_eq in H. congruence.
Qed.

Lemma imms_eqb_sound a : forall b, imms_eqb a b = true -> a = b.
Proof.
  induction a as [|x a IH]; intros [|y b] H; cbn in H; try discriminate H; [reflexivity|].
  apply andb_prop in H. destruct H as [H1 H2]. apply imm_eqb_sound in H1. apply IH in H2. congruence.
Qed.

Ltac sp H := repeat match type of H with _ && _ = true => let H' := fresh H in apply andb_prop in H; destruct H as [H H'] end.
Ltac leaf :=
  repeat match goal with
  | H : imm_eqb _ _ = true |- _ => apply imm_eqb_sound in H
  | H : imms_eqb _ _ = true |- _ => apply imms_eqb_sound in H
  | H : list_eqb _ _ = true |- _ => apply list_eqb_spec in H
  | H : (_ =? _) = true |- _ => apply N.eqb_eq in H
  end.

Fixpoint cexpr_eqb_sound (a b : cexpr) {struct a} : cexpr_eqb a b = true -> a = b
with aexpr_eqb_sound (a b : aexpr) {struct a} : aexpr_eqb a b = true -> a = b.
Proof.
  - intro H. destruct a, b; cbn [cexpr_eqb] in H; try discriminate H; sp H; leaf; try congruence.
    + (* match *)
      assert (arms = arms0) as ->.
      { clear H0. revert arms0 H1. induction arms as [|[p x] r IHr]; intros l Hr; destruct l as [|[p' x'] r']; cbn in Hr; try discriminate Hr.
        - reflexivity.
        - sp Hr. apply imm_eqb_sound in Hr. apply aexpr_eqb_sound in Hr1. apply IHr in Hr0. congruence. }
      assert (default = default0) as ->.
      { destruct default as [x|], default0 as [y|]; try discriminate H0; [apply aexpr_eqb_sound in H0; congruence|reflexivity]. }
      congruence.
    + (* if *) apply aexpr_eqb_sound in H1. apply aexpr_eqb_sound in H0. congruence.
    + (* while *) apply aexpr_eqb_sound in H. apply aexpr_eqb_sound in H0. congruence.
  - intro H. destruct a, b; cbn [aexpr_eqb] in H; try discriminate H.
    + apply cexpr_eqb_sound in H. congruence.
    + sp H. leaf. apply cexpr_eqb_sound in H1. apply aexpr_eqb_sound in H0. congruence.
Qed.

Theorem corr_true_means_equal body n0 real :
  fst (corr body n0 real) = true -> fst (anf_fn (depth body) body n0) = real.
Proof. unfold corr. cbn [fst]. apply aexpr_eqb_sound. Qed.
