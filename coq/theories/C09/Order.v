(** C09 — A-normalisation keeps every operation exactly once, in left-to-right evaluation order, inside
    the same branch: the sequence of let-bound operations of the result is the left-to-right post-order
    of the operations of the source. *)
From Goml Require Import Common.Base C09.Anf.
Open Scope N_scope.

Inductive desc :=
| DConstr (c : str) (n : nat) | DTuple (n : nat) | DArray (n : nat) | DGet (c : str) (i : N) | DUn (op : N) | DBin (op : N)
| DCall (n : nat) | DToDyn (tr : str) | DDynCall (tr m : str) (n : nat) | DGo | DProj (i : N).

Inductive ev :=
| EvOp (d : desc)
| EvIf (t e : list ev)
| EvWhile (c b : list ev)
| EvMatch (arms : list (list ev)) (d : option (list ev)).

(** the order in which the source evaluates its operations: operands left to right, then the operation *)
Fixpoint ord_src (e : lexpr) : list ev :=
  let fix ords (l : list lexpr) : list ev := match l with [] => [] | x :: r => ord_src x ++ ords r end in
  match e with
  | LVar _ | LPrim _ _ | LTag _ => []
  | LConstr c a => ords a ++ [EvOp (DConstr c (length a))]
  | LTuple a => ords a ++ [EvOp (DTuple (length a))]
  | LArray a => ords a ++ [EvOp (DArray (length a))]
  | LLet _ v b => ord_src v ++ ord_src b
  | LIf c t f => ord_src c ++ [EvIf (ord_src t) (ord_src f)]
  | LWhile c b => [EvWhile (ord_src c) (ord_src b)]
  | LGo x => ord_src x ++ [EvOp DGo]
  | LMatch s arms d =>
      ord_src s ++
      [EvMatch ((fix go (l : list (imm * lexpr)) : list (list ev) := match l with [] => [] | (_, b) :: r => ord_src b :: go r end) arms)
               (match d with Some x => Some (ord_src x) | None => None end)]
  | LGet x c i => ord_src x ++ [EvOp (DGet c i)]
  | LUn op x => ord_src x ++ [EvOp (DUn op)]
  | LBin op l r => ord_src l ++ ord_src r ++ [EvOp (DBin op)]
  | LCall f a => ord_src f ++ ords a ++ [EvOp (DCall (length a))]
  | LToDyn tr x => ord_src x ++ [EvOp (DToDyn tr)]
  | LDynCall tr m r a => ord_src r ++ ords a ++ [EvOp (DDynCall tr m (length a))]
  | LProj x i => ord_src x ++ [EvOp (DProj i)]
  end.

(** the order in which the A-normal form performs them: one let after the other *)
Fixpoint ord_c (c : cexpr) : list ev :=
  match c with
  | CImm _ => []
  | CConstr k a => [EvOp (DConstr k (length a))]
  | CTuple a => [EvOp (DTuple (length a))]
  | CArray a => [EvOp (DArray (length a))]
  | CMatch _ arms d =>
      [EvMatch ((fix go (l : list (imm * aexpr)) : list (list ev) := match l with [] => [] | (_, b) :: r => ord_a b :: go r end) arms)
               (match d with Some x => Some (ord_a x) | None => None end)]
  | CIf _ t f => [EvIf (ord_a t) (ord_a f)]
  | CWhile c b => [EvWhile (ord_a c) (ord_a b)]
  | CGet _ k i => [EvOp (DGet k i)]
  | CUn op _ => [EvOp (DUn op)]
  | CBin op _ _ => [EvOp (DBin op)]
  | CCall _ a => [EvOp (DCall (length a))]
  | CToDyn tr _ => [EvOp (DToDyn tr)]
  | CDynCall tr m _ a => [EvOp (DDynCall tr m (length a))]
  | CGo _ => [EvOp DGo]
  | CProj _ i => [EvOp (DProj i)]
  end
with ord_a (a : aexpr) : list ev :=
  match a with
  | ARet c => ord_c c
  | ALet _ v b => ord_c v ++ ord_a b
  end.

(** nesting depth, the fuel the model needs *)
Fixpoint depth (e : lexpr) : nat :=
  let fix dl (l : list lexpr) : nat := match l with [] => 0%nat | x :: r => Nat.max (depth x) (dl r) end in
  S match e with
    | LVar _ | LPrim _ _ | LTag _ => 0%nat
    | LConstr _ a | LTuple a | LArray a => dl a
    | LLet _ v b => Nat.max (depth v) (depth b)
    | LIf c t f => Nat.max (depth c) (Nat.max (depth t) (depth f))
    | LWhile c b => Nat.max (depth c) (depth b)
    | LGo x | LGet x _ _ | LUn _ x | LToDyn _ x | LProj x _ => depth x
    | LMatch s arms d =>
        Nat.max (depth s)
          (Nat.max ((fix go (l : list (imm * lexpr)) : nat := match l with [] => 0%nat | (_, b) :: r => Nat.max (depth b) (go r) end) arms)
                   (match d with Some x => depth x | None => 0%nat end))
    | LBin _ l r => Nat.max (depth l) (depth r)
    | LCall f a => Nat.max (depth f) (dl a)
    | LDynCall _ _ r a => Nat.max (depth r) (dl a)
    end.
