(** C09 — pinned statements about the A-normalisation model (crates/compiler/src/anf.rs) *)
From Goml Require Import Common.Base C09.Anf C09.Order C09.Proofs C09.Flat C09.FlatEq C09.Sem.
Open Scope N_scope.

(** For every lifted body and every start value of the temporary counter: the sequence of operations
    the A-normal form performs, one let after the other, with the operations of each if/while/match
    branch kept inside that branch, is exactly the left-to-right, operands-first order of the source.
    Nothing is dropped, duplicated, reordered or moved across a branch. *)
Theorem anf_keeps_every_operation_once_in_order :
  forall fuel body n, (depth body <= fuel)%nat -> ord_a (fst (anf_fn fuel body n)) = ord_src body.
Proof. exact anf_fn_keeps_order. Qed.
Print Assumptions anf_keeps_every_operation_once_in_order.

(** the same inside any context that performs the received operation first *)
Theorem anf_in_context_keeps_order :
  forall fuel e, (depth e <= fuel)%nat -> forall n k tail,
  (forall c m, ord_a (fst (k c m)) = ord_c c ++ tail) -> ord_a (fst (anf fuel e n k)) = ord_src e ++ tail.
Proof. exact anf_keeps_order. Qed.
Print Assumptions anf_in_context_keeps_order.

(** Meaning. For every interpretation of literals, operations (construction, arithmetic, calls, trait-object calls,
    spawning: anything with evaluated operands, free to print, update the heap or fail), truth of conditions and arm
    selection: if the lifted body evaluates (left to right, within its fuel) to a value or to a run-time failure, the
    A-normal form the model builds evaluates to the same value in the same final world, or fails in the same world, and
    the registers agree except for the temporaries. Hypothesis [wfb]: no source name looks like a temporary and an
    operand that is a variable is not re-bound by a later operand of the same operation (true of the trees goml builds:
    locals carry unique ids; checked on every real function on every run). *)
Theorem anf_preserves_meaning :
  forall (val world : Type) (prim_val : str -> val) (tag_val : N -> val) (unit_val : val) (glob : str -> option val)
         (oper : desc -> list val -> world -> option val * world) (truth : val -> option bool) (pat_match : imm -> val -> bool)
         fs fa body n r w o,
  eval_l val world prim_val tag_val unit_val glob oper truth pat_match fs body r w = Some o ->
  (depth body <= fa)%nat -> wfb body = true ->
  match o with
  | OVal _ _ v r2 w2 =>
      exists ra2, eva val world prim_val tag_val unit_val glob oper truth pat_match (fst (anf_fn fa body n)) r w (OVal _ _ v ra2 w2)
                  /\ ext val r2 ra2
  | OFail _ _ wf => eva val world prim_val tag_val unit_val glob oper truth pat_match (fst (anf_fn fa body n)) r w (OFail _ _ wf)
  end.
Proof. exact anf_fn_correct. Qed.
Print Assumptions anf_preserves_meaning.

(** the continuation-passing model is "wrap the bindings of the first-order description around the rest" *)
Theorem anf_is_wrap_of_flat : forall fuel e n k,
  anf fuel e n k = let '(bs, c, n1) := flat fuel e n in let (a, n2) := k c n1 in (wrap bs a, n2).
Proof. exact anf_flat. Qed.
Print Assumptions anf_is_wrap_of_flat.

(** non-vacuity: f(g(1), if c { h(2) } else { 3 }) *)
Definition ex_body : lexpr :=
  LCall (LVar [102]) [LCall (LVar [103]) [LPrim [49] 1]; LIf (LVar [99]) (LCall (LVar [104]) [LPrim [50] 1]) (LPrim [51] 1)].
Example ex_body_order :
  ord_a (fst (anf_fn 10 ex_body 0)) = [EvOp (DCall 1); EvIf [EvOp (DCall 1)] []; EvOp (DCall 2)]
  /\ (depth ex_body <= 10)%nat.
Proof. split; [reflexivity|cbn; lia]. Qed.

(** The full property also asks that the right operand of && / || is evaluated only when the left one does
    not decide. That part is false of the faithful model (and of anf.rs: known finding
    C09-and-or-not-short-circuit): in `false && noisy()` the call is performed unconditionally, before the
    operator, outside any branch. 4288100 is the operator name And read in base 256. *)
Example short_circuit_refuted :
  ord_a (fst (anf_fn 5 (LBin 4288100 (LPrim [102] 0) (LCall (LVar [110]) [])) 0)) = [EvOp (DCall 0); EvOp (DBin 4288100)].
Proof. reflexivity. Qed.

(** non-vacuity of [anf_preserves_meaning]: with numbers as values, a trace of operation arities as world, every name
    a global and "1 is true", the example body evaluates (the if takes its then branch) and is well-formed *)
Example ex_body_evaluates :
  match eval_l N (list N) (fun _ => 1) (fun i => i) 0 (fun _ => Some 1)
               (fun d vs w => (Some 1, N.of_nat (length vs) :: w)) (fun v => Some (v =? 1)) (fun _ _ => false)
               10 ex_body (fun _ => None) [] with
  | Some (OVal _ _ v _ w) => v = 1 /\ w = [3; 2; 2]
  | _ => False
  end /\ wfb ex_body = true.
Proof. vm_compute. split; [split|]; reflexivity. Qed.

(** Dead-code elimination (crates/compiler/src/go/dce.rs) decides what it may drop with expr_has_side_effects /
    stmt_has_side_effects; [has_effects] / [stmt_has_effects] (C09/Dce.v) mirror them and are compared with the real
    functions on every run.  For every Go expression and statement they classify as effect-free, in every environment
    and state and with any fuel: if it evaluates, standard output is unchanged and the heap is only extended (so
    nothing that existed before can tell whether it ran); and if it fails, it fails on a nil dereference or a failed
    type assertion with the output unchanged — never on an index or a division, which the classification keeps. *)
From Goml Require Import Sem.GoAst Sem.GoSem C09.Dce C09.DceProofs.
Theorem effect_free_expression_is_unobservable :
  forall fns ifaces smethods fuel e rho s, has_effects e = false ->
  match eval fns ifaces smethods fuel e rho s with
  | Ok (_, s') => out s' = out s /\ exists ext, heap s' = heap s ++ ext
  | Panic m o => (m = s_nil \/ m = s_assert) /\ o = out s
  | _ => True
  end.
Proof. intros fns ifaces smethods fuel e rho s H. pose proof (proj1 (all_quiet fns ifaces smethods fuel) e rho s H) as G. destruct (eval fns ifaces smethods fuel e rho s) as [[v s']| | | |]; exact G. Qed.
Print Assumptions effect_free_expression_is_unobservable.

Theorem effect_free_statement_is_unobservable :
  forall fns ifaces smethods fuel st rho s, stmt_has_effects st = false ->
  match exec fns ifaces smethods fuel st rho s with
  | Ok (_, _, s') => out s' = out s /\ exists ext, heap s' = heap s ++ ext
  | Panic m o => (m = s_nil \/ m = s_assert) /\ o = out s
  | _ => True
  end.
Proof. intros fns ifaces smethods fuel st rho s H. pose proof (proj2 (proj2 (all_quiet fns ifaces smethods fuel)) st rho s H) as G. destruct (exec fns ifaces smethods fuel st rho s) as [[[sg r] s']| | | |]; exact G. Qed.
Print Assumptions effect_free_statement_is_unobservable.

(** non-vacuity: &P{a: 1 + 2} is classified effect-free, evaluates, allocates one cell and prints nothing;
    and the two classifications the theorem depends on are necessary: an index and a division do fail *)
Example effect_free_example :
  let e := EUnary UAddrOf (EStructLit [([97]%N, EBinary BAdd (EInt [49]%N GInt32) (EInt [50]%N GInt32) GInt32)] (GName [80]%N)) (GPointer (GName [80]%N)) in
  has_effects e = false /\
  eval [] [] [] 10%nat e [] {| heap := []; out := [] |} = Ok (VPtr 0%nat, {| heap := [VStruct [80]%N [([97]%N, VInt 3%Z)]]; out := [] |}).
Proof. split; reflexivity. Qed.
Example index_and_division_are_effects :
  let rho := [([120]%N, VInt 1%Z); ([121]%N, VInt 0%Z)] in
  let ix := EIndex (EArrayLit [] (GArray 0%N GInt32)) (EVar [121]%N GInt32) GInt32 in
  let dv := EBinary BDiv (EVar [120]%N GInt32) (EVar [121]%N GInt32) GInt32 in
  has_effects ix = true /\ has_effects dv = true /\
  eval [] [] [] 10%nat ix rho {| heap := []; out := [] |} = Panic [105;110;100;101;120]%N [] /\
  eval [] [] [] 10%nat dv rho {| heap := []; out := [] |} = Panic [100;105;118;105;100;101;32;98;121;32;122;101;114;111]%N [].
Proof. repeat split; reflexivity. Qed.
