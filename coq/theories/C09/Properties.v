(** C09 — pinned statements about the A-normalisation model (crates/compiler/src/anf.rs) *)
From Goml Require Import Common.Base C09.Anf C09.Order C09.Proofs.
Open Scope N_scope.

(** For every lifted body and every start value of the temporary counter: the sequence of operations
    the A-normal form performs, one let after the other, with the operations of each if/while/match
    branch kept inside that branch, is exactly the left-to-right, operands-first order of the source.
    Nothing is dropped, duplicated, reordered or moved across a branch. *)
Theorem anf_keeps_every_operation_once_in_order :
  forall fuel body n, (depth body <= fuel)%nat -> ord_a (fst (anf_fn fuel body n)) = ord_src body.
Proof. exact anf_fn_keeps_order. Qed.
Print Assumptions anf_keeps_every_operation_once_in_order.

(** the same inside any context that performs the received operation first *)
Theorem anf_in_context_keeps_order :
  forall fuel e, (depth e <= fuel)%nat -> forall n k tail,
  (forall c m, ord_a (fst (k c m)) = ord_c c ++ tail) -> ord_a (fst (anf fuel e n k)) = ord_src e ++ tail.
Proof. exact anf_keeps_order. Qed.
Print Assumptions anf_in_context_keeps_order.

(** non-vacuity: f(g(1), if c { h(2) } else { 3 }) *)
Definition ex_body : lexpr :=
  LCall (LVar [102]) [LCall (LVar [103]) [LPrim [49] 1]; LIf (LVar [99]) (LCall (LVar [104]) [LPrim [50] 1]) (LPrim [51] 1)].
Example ex_body_order :
  ord_a (fst (anf_fn 10 ex_body 0)) = [EvOp (DCall 1); EvIf [EvOp (DCall 1)] []; EvOp (DCall 2)]
  /\ (depth ex_body <= 10)%nat.
Proof. split; [reflexivity|cbn; lia]. Qed.

(** The full property also asks that the right operand of && / || is evaluated only when the left one does
    not decide. That part is false of the faithful model (and of anf.rs: known finding
    C09-and-or-not-short-circuit): in `false && noisy()` the call is performed unconditionally, before the
    operator, outside any branch. 4288100 is the operator name And read in base 256. *)
Example short_circuit_refuted :
  ord_a (fst (anf_fn 5 (LBin 4288100 (LPrim [102] 0) (LCall (LVar [110]) [])) 0)) = [EvOp (DCall 0); EvOp (DBin 4288100)].
Proof. reflexivity. Qed.
