(** C09 — model of crates/compiler/src/anf.rs: the continuation-passing A-normalisation of the
    lambda-lifted tree (anf / anf_imm / anf_list / compile_match_arms_to_anf), with the gensym
    counter threaded explicitly.  Types are dropped; everything else is kept node for node. *)
From Goml Require Import Common.Base.
Open Scope N_scope.

Inductive imm := IVar (x : str) | IPrim (p : str) | ITag (idx : N).

(** the lifted tree *)
Inductive lexpr :=
| LVar (x : str)
| LPrim (p : str) (cls : N)                       (* cls: 0 not a number, 1 a non-zero numeric literal, 2 a zero numeric literal *)
| LTag (idx : N)                                   (* nullary enum constructor *)
| LConstr (c : str) (args : list lexpr)
| LTuple (items : list lexpr)
| LArray (items : list lexpr)
| LLet (x : str) (v b : lexpr)
| LIf (c t e : lexpr)
| LWhile (c b : lexpr)
| LGo (e : lexpr)
| LMatch (s : lexpr) (arms : list (imm * lexpr)) (default : option lexpr)
| LGet (e : lexpr) (c : str) (i : N)
| LUn (op : N) (e : lexpr)
| LBin (op : N) (l r : lexpr)
| LCall (f : lexpr) (args : list lexpr)
| LToDyn (tr : str) (e : lexpr)
| LDynCall (tr m : str) (recv : lexpr) (args : list lexpr)
| LProj (e : lexpr) (i : N).

Inductive cexpr :=
| CImm (a : imm)
| CConstr (c : str) (args : list imm)
| CTuple (items : list imm)
| CArray (items : list imm)
| CMatch (s : imm) (arms : list (imm * aexpr)) (default : option aexpr)
| CIf (c : imm) (t e : aexpr)
| CWhile (c b : aexpr)
| CGet (e : imm) (c : str) (i : N)
| CUn (op : N) (e : imm)
| CBin (op : N) (l r : imm)
| CCall (f : imm) (args : list imm)
| CToDyn (tr : str) (e : imm)
| CDynCall (tr m : str) (recv : imm) (args : list imm)
| CGo (e : imm)
| CProj (e : imm) (i : N)
with aexpr :=
| ARet (c : cexpr)
| ALet (x : str) (v : cexpr) (b : aexpr).

(** gensym("t"): the name t<n> *)
Definition tname (n : N) : str := 116 :: dec n.

Definition K := cexpr -> N -> aexpr * N.
Definition KI := imm -> N -> aexpr * N.
Definition KL := list imm -> N -> aexpr * N.

Definition ret : K := fun c n => (ARet c, n).

(** operators as numbers: the name read in base 256 *)
Definition op_add : N := 4285540.
Definition op_sub : N := 5469538.
Definition op_mul : N := 5076332.
Definition op_div : N := 4483446.
Definition arith (op : N) : bool := (op =? op_add) || (op =? op_sub) || (op =? op_mul) || (op =? op_div).
Definition lit_class (e : lexpr) : N := match e with LPrim _ c => c | _ => 0 end.
Definition name_rhs (op : N) (r : lexpr) : bool := (op =? op_div) && (lit_class r =? 2).
Definition name_lhs (op : N) (l r : lexpr) : bool :=
  arith op && negb (name_rhs op r) && negb (lit_class l =? 0) && negb (lit_class r =? 0).

Fixpoint anf (fuel : nat) (e : lexpr) (n : N) (k : K) {struct fuel} : aexpr * N :=
  match fuel with
  | O => k (CImm (IPrim [])) n
  | S fuel =>
      (* anf_imm: atoms are passed on, anything else is named by a fresh temporary *)
      let anf_named := fun (e : lexpr) (n : N) (k : KI) =>
        let name := tname n in
        anf fuel e (n + 1) (fun c n' => let (body, n'') := k (IVar name) n' in (ALet name c body, n'')) in
      let anf_imm := fun (e : lexpr) (n : N) (k : KI) =>
        match e with
        | LVar x => k (IVar x) n
        | LPrim p _ => k (IPrim p) n
        | _ => anf_named e n k
        end in
      let anf_list := fix go (es : list lexpr) (n : N) (k : KL) {struct es} : aexpr * N :=
        match es with
        | [] => k [] n
        | h :: t => anf_imm h n (fun ih n' => go t n' (fun it n'' => k (ih :: it) n''))
        end in
      let arms_of := fix go (arms : list (imm * lexpr)) (n : N) {struct arms} : list (imm * aexpr) * N :=
        match arms with
        | [] => ([], n)
        | (p, b) :: r => let (ab, n1) := anf fuel b n ret in let (rr, n2) := go r n1 in ((p, ab) :: rr, n2)
        end in
      match e with
      | LVar x => k (CImm (IVar x)) n
      | LPrim p _ => k (CImm (IPrim p)) n
      | LTag i => k (CImm (ITag i)) n
      | LConstr c args => anf_list args n (fun a n' => k (CConstr c a) n')
      | LTuple items => anf_list items n (fun a n' => k (CTuple a) n')
      | LArray items => anf_list items n (fun a n' => k (CArray a) n')
      | LLet x v b => anf fuel v n (fun ve n' => let (body, n'') := anf fuel b n' k in (ALet x ve body, n''))
      | LIf c t f =>
          anf_imm c n (fun ci n1 =>
            let (ta, n2) := anf fuel t n1 ret in
            let (fa, n3) := anf fuel f n2 ret in
            k (CIf ci ta fa) n3)
      | LWhile c b =>
          let (ca, n1) := anf fuel c n ret in
          let (ba, n2) := anf fuel b n1 ret in
          k (CWhile ca ba) n2
      | LGo x => anf_imm x n (fun i n' => k (CGo i) n')
      | LMatch s arms d =>
          anf_imm s n (fun si n1 =>
            let (aa, n2) := arms_of arms n1 in
            let (da, n3) := match d with Some x => let (xa, m) := anf fuel x n2 ret in (Some xa, m) | None => (None, n2) end in
            k (CMatch si aa da) n3)
      | LGet x c i => anf_imm x n (fun a n' => k (CGet a c i) n')
      | LUn op x => anf_imm x n (fun a n' => k (CUn op a) n')
      | LBin op l r =>
          (* two numeric literals, or a zero literal divisor, would be a Go constant expression: one literal is named *)
          (if name_lhs op l r then anf_named else anf_imm) l n (fun li n1 =>
            (if name_rhs op r then anf_named else anf_imm) r n1 (fun ri n2 => k (CBin op li ri) n2))
      | LCall f args => anf_imm f n (fun fi n1 => anf_list args n1 (fun a n2 => k (CCall fi a) n2))
      | LToDyn tr x => anf_imm x n (fun a n' => k (CToDyn tr a) n')
      | LDynCall tr m recv args => anf_imm recv n (fun ri n1 => anf_list args n1 (fun a n2 => k (CDynCall tr m ri a) n2))
      | LProj x i => anf_imm x n (fun a n' => k (CProj a i) n')
      end
  end.

Definition anf_fn (fuel : nat) (body : lexpr) (n : N) : aexpr * N := anf fuel body n ret.
