(** C09 — what dead-code elimination may drop.  [has_effects] / [stmt_has_effects] mirror
    expr_has_side_effects / stmt_has_side_effects of crates/compiler/src/go/dce.rs; the correspondence check
    compares them with the real functions (reached through the goml_verif hook) on every expression and statement
    of every emitted program. *)
From Goml Require Import Common.Base Sem.GoAst Sem.GoSem.
Open Scope Z_scope.

Fixpoint has_effects (e : expr) : bool :=
  match e with
  | ECall _ _ _ => true
  | EBlock ss oe _ =>
      (fix any (l : list stmt) : bool := match l with [] => false | x :: r => stmt_has_effects x || any r end) ss
      || match oe with Some x => has_effects x | None => false end
  | EField o _ _ => has_effects o
  | EIndex _ _ _ => true
  | EUnary _ x _ => has_effects x
  | EBinary BDiv _ _ _ => true
  | EBinary _ l r _ => has_effects l || has_effects r
  | ECast x _ => has_effects x
  | EStructLit fs _ => (fix any (l : list (str * expr)) : bool := match l with [] => false | (_, x) :: r => has_effects x || any r end) fs
  | EArrayLit es _ => (fix any (l : list expr) : bool := match l with [] => false | x :: r => has_effects x || any r end) es
  | EVar _ _ | ENil _ | EVoid _ | EUnit _ | EBool _ _ | EInt _ _ | EFloat _ _ | EString _ _ => false
  end
with stmt_has_effects (st : stmt) : bool :=
  let any := fix any (l : list stmt) : bool := match l with [] => false | x :: r => stmt_has_effects x || any r end in
  let opt := fun (o : option (list stmt)) => match o with Some b => any b | None => false end in
  match st with
  | SExpr e => has_effects e
  | SGo _ => true
  | SVarDecl _ _ v => match v with Some x => has_effects x | None => false end
  | SAssign _ v => has_effects v
  | SIndexAssign _ _ _ => true
  | SPointerAssign _ _ => true
  | SFieldAssign _ _ => true
  | SReturn oe => match oe with Some x => has_effects x | None => false end
  | SLoop body => any body
  | SBreak => false
  | SIf c th el => has_effects c || any th || opt el
  | SSwitchExpr e cases d =>
      has_effects e
      || (fix anyc (l : list (expr * list stmt)) : bool := match l with [] => false | (c, b) :: r => (has_effects c || any b) || anyc r end) cases
      || opt d
  | SSwitchType _ e cases d =>
      has_effects e
      || (fix anyc (l : list (gty * list stmt)) : bool := match l with [] => false | (_, b) :: r => any b || anyc r end) cases
      || opt d
  end.

Definition any_stmt : list stmt -> bool :=
  fix any (l : list stmt) : bool := match l with [] => false | x :: r => stmt_has_effects x || any r end.

(** the classification of every expression and statement of a function body, in pre-order (operands in the order of
    the Rust fields): what the correspondence check compares with the real functions *)
Fixpoint trace_e (e : expr) : list bool :=
  has_effects e ::
  match e with
  | ECall f args _ => trace_e f ++ (fix go (l : list expr) : list bool := match l with [] => [] | x :: r => trace_e x ++ go r end) args
  | EUnary _ x _ => trace_e x
  | EBinary _ l r _ => trace_e l ++ trace_e r
  | EField o _ _ => trace_e o
  | EIndex a i _ => trace_e a ++ trace_e i
  | ECast x _ => trace_e x
  | EStructLit fs _ => (fix go (l : list (str * expr)) : list bool := match l with [] => [] | (_, x) :: r => trace_e x ++ go r end) fs
  | EArrayLit es _ => (fix go (l : list expr) : list bool := match l with [] => [] | x :: r => trace_e x ++ go r end) es
  | EBlock ss oe _ =>
      (fix go (l : list stmt) : list bool := match l with [] => [] | x :: r => trace_s x ++ go r end) ss
      ++ match oe with Some x => trace_e x | None => [] end
  | _ => []
  end
with trace_s (st : stmt) : list bool :=
  let blk := fix go (l : list stmt) : list bool := match l with [] => [] | x :: r => trace_s x ++ go r end in
  let oblk := fun (o : option (list stmt)) => match o with Some b => blk b | None => [] end in
  let oe := fun (o : option expr) => match o with Some x => trace_e x | None => [] end in
  stmt_has_effects st ::
  match st with
  | SExpr e => trace_e e
  | SGo c => trace_e c
  | SVarDecl _ _ v => oe v
  | SAssign _ v => trace_e v
  | SFieldAssign t v => trace_e t ++ trace_e v
  | SPointerAssign p v => trace_e p ++ trace_e v
  | SIndexAssign a i v => trace_e a ++ trace_e i ++ trace_e v
  | SReturn v => oe v
  | SIf c th el => trace_e c ++ blk th ++ oblk el
  | SLoop body => blk body
  | SBreak => []
  | SSwitchExpr e cases d =>
      trace_e e ++ (fix go (l : list (expr * list stmt)) : list bool := match l with [] => [] | (c, b) :: r => trace_e c ++ blk b ++ go r end) cases ++ oblk d
  | SSwitchType _ e cases d =>
      trace_e e ++ (fix go (l : list (gty * list stmt)) : list bool := match l with [] => [] | (_, b) :: r => blk b ++ go r end) cases ++ oblk d
  end.

Definition trace_block : list stmt -> list bool :=
  fix go (l : list stmt) : list bool := match l with [] => [] | x :: r => trace_s x ++ go r end.

Fixpoint trace_file (f : file) : list bool :=
  match f with [] => [] | IFn x :: r => trace_block (f_body x) ++ trace_file r | _ :: r => trace_file r end.

(** index of the first position at which two classifications differ *)
Fixpoint first_diff (a b : list bool) (i : N) : option N :=
  match a, b with
  | [], [] => None
  | x :: a', y :: b' => if Bool.eqb x y then first_diff a' b' (i + 1)%N else Some i
  | _, _ => Some i
  end.
