From Goml Require Import Common.Base.
From Goml Require Import C09.Anf C09.Order C09.Proofs.
From Goml Require Import C09.Flat.
Open Scope N_scope.

Section Rel.
Variable A : lexpr -> N -> K -> aexpr * N.
Variable Fl : lexpr -> N -> binds * cexpr * N.
Hypothesis H : forall e n k, A e n k = let '(bs, c, n1) := Fl e n in let (a, n2) := k c n1 in (wrap bs a, n2).

Lemma named_eq e n (k : KI) :
  anf_named_g A e n k = let '(bs, i, n1) := flat_named_g Fl e n in let (a, n2) := k i n1 in (wrap bs a, n2).
Proof.
  unfold anf_named_g, flat_named_g. rewrite H. destruct (Fl e (n + 1)) as [[bs c] n1].
  destruct (k (IVar (tname n)) n1) as [a n2]. rewrite wrap_app. reflexivity.
Qed.

Lemma imm_eq e n (k : KI) :
  anf_imm_g A e n k = let '(bs, i, n1) := flat_imm_g Fl e n in let (a, n2) := k i n1 in (wrap bs a, n2).
Proof.
  pose proof (named_eq e n k) as G.
  destruct e; try exact G; cbn; destruct (k _ n); reflexivity.
Qed.

Lemma either_eq (b : bool) e n (k : KI) :
  (if b then anf_named_g A else anf_imm_g A) e n k =
  let '(bs, i, n1) := (if b then flat_named_g Fl else flat_imm_g Fl) e n in let (a, n2) := k i n1 in (wrap bs a, n2).
Proof. destruct b; [apply named_eq|apply imm_eq]. Qed.

Lemma list_eq es : forall n (k : KL),
  anf_list_g A es n k = let '(bs, l, n1) := flat_list_g Fl es n in let (a, n2) := k l n1 in (wrap bs a, n2).
Proof.
  induction es as [|h t IH]; intros n k.
  - cbn. destruct (k [] n). reflexivity.
  - cbn [anf_list_g flat_list_g]. rewrite imm_eq. destruct (flat_imm_g Fl h n) as [[b1 i] n1].
    rewrite IH. destruct (flat_list_g Fl t n1) as [[b2 r] n2]. destruct (k (i :: r) n2) as [a n3].
    rewrite wrap_app. reflexivity.
Qed.

Lemma body_eq e n : A e n ret = body_g Fl e n.
Proof. rewrite H. unfold body_g. destruct (Fl e n) as [[bs c] n1]. reflexivity. Qed.

Lemma arms_eq arms : forall n, arms_g A arms n = farms_g Fl arms n.
Proof.
  induction arms as [|[p b] r IH]; intros n; [reflexivity|].
  cbn [arms_g farms_g]. rewrite body_eq. destruct (body_g Fl b n) as [ab n1]. rewrite IH. reflexivity.
Qed.
End Rel.

Theorem anf_flat : forall fuel e n k,
  anf fuel e n k = let '(bs, c, n1) := flat fuel e n in let (a, n2) := k c n1 in (wrap bs a, n2).
Proof.
  induction fuel as [|f IH]; intros e n k.
  - cbn. destruct (k (CImm (IPrim [])) n). reflexivity.
  - rewrite anf_S, flat_S. cbv zeta.
    pose proof (imm_eq (anf f) (flat f) IH) as IM. pose proof (list_eq (anf f) (flat f) IH) as LI.
    pose proof (arms_eq (anf f) (flat f) IH) as AR. pose proof (body_eq (anf f) (flat f) IH) as BO.
    pose proof (either_eq (anf f) (flat f) IH) as EI.
    destruct e.
    + destruct (k _ n); reflexivity.
    + destruct (k _ n); reflexivity.
    + destruct (k _ n); reflexivity.
    + rewrite LI. destruct (flat_list_g (flat f) args n) as [[bs a] n1]. reflexivity.
    + rewrite LI. destruct (flat_list_g (flat f) items n) as [[bs a] n1]. reflexivity.
    + rewrite LI. destruct (flat_list_g (flat f) items n) as [[bs a] n1]. reflexivity.
    + (* let *) rewrite IH. destruct (flat f e1 n) as [[b1 c1] n1]. rewrite IH. destruct (flat f e2 n1) as [[b2 c2] n2].
      destruct (k c2 n2) as [a n3]. rewrite wrap_app. reflexivity.
    + (* if *) rewrite IM. destruct (flat_imm_g (flat f) e1 n) as [[b1 ci] n1]. rewrite BO.
      destruct (body_g (flat f) e2 n1) as [ta n2]. rewrite BO. destruct (body_g (flat f) e3 n2) as [fa n3]. reflexivity.
    + (* while *) rewrite BO. destruct (body_g (flat f) e1 n) as [ca n1]. rewrite BO. destruct (body_g (flat f) e2 n1) as [ba n2].
      destruct (k _ n2); reflexivity.
    + rewrite IM. destruct (flat_imm_g (flat f) e n) as [[b1 im] n1]. reflexivity.
    + (* match *) rewrite IM. destruct (flat_imm_g (flat f) e n) as [[b1 si] n1]. rewrite AR.
      destruct (farms_g (flat f) arms n1) as [aa n2]. destruct default as [x|]; [rewrite BO; destruct (body_g (flat f) x n2) as [xa m]|]; reflexivity.
    + rewrite IM. destruct (flat_imm_g (flat f) e n) as [[b1 im] n1]. reflexivity.
    + rewrite IM. destruct (flat_imm_g (flat f) e n) as [[b1 im] n1]. reflexivity.
    + (* bin *) rewrite EI. destruct ((if name_lhs op e1 e2 then flat_named_g (flat f) else flat_imm_g (flat f)) e1 n) as [[b1 li] n1].
      rewrite EI. destruct ((if name_rhs op e2 then flat_named_g (flat f) else flat_imm_g (flat f)) e2 n1) as [[b2 ri] n2].
      destruct (k _ n2) as [a n3]. rewrite wrap_app. reflexivity.
    + (* call *) rewrite IM. destruct (flat_imm_g (flat f) e n) as [[b1 fi] n1]. rewrite LI.
      destruct (flat_list_g (flat f) args n1) as [[b2 a] n2]. destruct (k _ n2) as [x n3]. rewrite wrap_app. reflexivity.
    + rewrite IM. destruct (flat_imm_g (flat f) e n) as [[b1 im] n1]. reflexivity.
    + (* dyn call *) rewrite IM. destruct (flat_imm_g (flat f) e n) as [[b1 fi] n1]. rewrite LI.
      destruct (flat_list_g (flat f) args n1) as [[b2 a] n2]. destruct (k _ n2) as [x n3]. rewrite wrap_app. reflexivity.
    + rewrite IM. destruct (flat_imm_g (flat f) e n) as [[b1 im] n1]. reflexivity.
Qed.

(** a whole function body *)
Corollary anf_fn_flat fuel body n : anf_fn fuel body n = body_g (flat fuel) body n.
Proof. unfold anf_fn. apply body_eq. apply anf_flat. Qed.
