From Goml Require Import Common.Base.
From Goml Require Import C09.Anf C09.Order C09.Flat.
Open Scope N_scope.

Section Mono.
Variable Fl : lexpr -> N -> binds * cexpr * N.
Hypothesis HFl : forall e n bs c n', Fl e n = (bs, c, n') -> n <= n'.

Lemma named_mono e n bs i n' : flat_named_g Fl e n = (bs, i, n') -> n <= n'.
Proof. unfold flat_named_g. destruct (Fl e (n + 1)) as [[b c] n1] eqn:F. intro H. injection H as _ _ <-. apply HFl in F. lia. Qed.

Lemma imm_mono e n bs i n' : flat_imm_g Fl e n = (bs, i, n') -> n <= n'.
Proof.
  intro H. pose proof (named_mono e n) as G.
  destruct e; try (eapply G; exact H); cbn in H; injection H as _ _ <-; lia.
Qed.

Lemma either_mono (b : bool) e n bs i n' : (if b then flat_named_g Fl else flat_imm_g Fl) e n = (bs, i, n') -> n <= n'.
Proof. destruct b; [apply named_mono|apply imm_mono]. Qed.

Lemma list_mono es : forall n bs l n', flat_list_g Fl es n = (bs, l, n') -> n <= n'.
Proof.
  induction es as [|h t IH]; intros n bs l n' H; cbn [flat_list_g] in H.
  - injection H as _ _ <-. lia.
  - destruct (flat_imm_g Fl h n) as [[b1 i] n1] eqn:Fh. destruct (flat_list_g Fl t n1) as [[b2 r] n2] eqn:Ft.
    injection H as _ _ <-. apply imm_mono in Fh. apply IH in Ft. lia.
Qed.

Lemma body_mono e n a n' : body_g Fl e n = (a, n') -> n <= n'.
Proof. unfold body_g. destruct (Fl e n) as [[bs c] n1] eqn:F. intro H. injection H as _ <-. exact (HFl _ _ _ _ _ F). Qed.

Lemma arms_mono arms : forall n aa n', farms_g Fl arms n = (aa, n') -> n <= n'.
Proof.
  induction arms as [|[p b] r IH]; intros n aa n' H; cbn [farms_g] in H.
  - injection H as _ <-. lia.
  - destruct (body_g Fl b n) as [ab n1] eqn:Fb. destruct (farms_g Fl r n1) as [rr n2] eqn:Fr.
    injection H as _ <-. apply body_mono in Fb. apply IH in Fr. lia.
Qed.
End Mono.

Theorem flat_mono : forall fa e n bs c n', flat fa e n = (bs, c, n') -> n <= n'.
Proof.
  induction fa as [|fa IH]; intros e n bs c n' H.
  - cbn in H. injection H as _ _ <-. lia.
  - rewrite flat_S in H. cbv zeta in H.
    pose proof (imm_mono (flat fa) IH) as IM. pose proof (list_mono (flat fa) IH) as LI.
    pose proof (body_mono (flat fa) IH) as BO. pose proof (arms_mono (flat fa) IH) as AR.
    pose proof (either_mono (flat fa) IH) as EI.
    destruct e.
    + injection H as _ _ <-; lia.
    + injection H as _ _ <-; lia.
    + injection H as _ _ <-; lia.
    + destruct (flat_list_g (flat fa) args n) as [[b a] n1] eqn:F. injection H as _ _ <-. exact (LI _ _ _ _ _ F).
    + destruct (flat_list_g (flat fa) items n) as [[b a] n1] eqn:F. injection H as _ _ <-. exact (LI _ _ _ _ _ F).
    + destruct (flat_list_g (flat fa) items n) as [[b a] n1] eqn:F. injection H as _ _ <-. exact (LI _ _ _ _ _ F).
    + destruct (flat fa e1 n) as [[b1 c1] n1] eqn:F1. destruct (flat fa e2 n1) as [[b2 c2] n2] eqn:F2.
      injection H as _ _ <-. apply IH in F1. apply IH in F2. lia.
    + destruct (flat_imm_g (flat fa) e1 n) as [[b1 ci] n1] eqn:F1. destruct (body_g (flat fa) e2 n1) as [ta n2] eqn:F2.
      destruct (body_g (flat fa) e3 n2) as [fa0 n3] eqn:F3. injection H as _ _ <-. apply IM in F1. apply BO in F2. apply BO in F3. lia.
    + destruct (body_g (flat fa) e1 n) as [ca n1] eqn:F1. destruct (body_g (flat fa) e2 n1) as [ba n2] eqn:F2.
      injection H as _ _ <-. apply BO in F1. apply BO in F2. lia.
    + destruct (flat_imm_g (flat fa) e n) as [[b1 i] n1] eqn:F1. injection H as _ _ <-. exact (IM _ _ _ _ _ F1).
    + destruct (flat_imm_g (flat fa) e n) as [[b1 si] n1] eqn:F1. destruct (farms_g (flat fa) arms n1) as [aa n2] eqn:F2.
      destruct default as [x|].
      * destruct (body_g (flat fa) x n2) as [xa m] eqn:F3. injection H as _ _ <-. apply IM in F1. apply AR in F2. apply BO in F3. lia.
      * injection H as _ _ <-. apply IM in F1. apply AR in F2. lia.
    + destruct (flat_imm_g (flat fa) e n) as [[b1 i0] n1] eqn:F1. injection H as _ _ <-. exact (IM _ _ _ _ _ F1).
    + destruct (flat_imm_g (flat fa) e n) as [[b1 i] n1] eqn:F1. injection H as _ _ <-. exact (IM _ _ _ _ _ F1).
    + destruct ((if name_lhs op e1 e2 then flat_named_g (flat fa) else flat_imm_g (flat fa)) e1 n) as [[b1 li] n1] eqn:F1.
      destruct ((if name_rhs op e2 then flat_named_g (flat fa) else flat_imm_g (flat fa)) e2 n1) as [[b2 ri] n2] eqn:F2.
      injection H as _ _ <-. apply EI in F1. apply EI in F2. lia.
    + destruct (flat_imm_g (flat fa) e n) as [[b1 fi] n1] eqn:F1. destruct (flat_list_g (flat fa) args n1) as [[b2 a] n2] eqn:F2.
      injection H as _ _ <-. apply IM in F1. apply LI in F2. lia.
    + destruct (flat_imm_g (flat fa) e n) as [[b1 i] n1] eqn:F1. injection H as _ _ <-. exact (IM _ _ _ _ _ F1).
    + destruct (flat_imm_g (flat fa) e n) as [[b1 fi] n1] eqn:F1. destruct (flat_list_g (flat fa) args n1) as [[b2 a] n2] eqn:F2.
      injection H as _ _ <-. apply IM in F1. apply LI in F2. lia.
    + destruct (flat_imm_g (flat fa) e n) as [[b1 i0] n1] eqn:F1. injection H as _ _ <-. exact (IM _ _ _ _ _ F1).
Qed.
