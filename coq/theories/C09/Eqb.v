(** C09 — boolean equality on A-normal forms and on operation traces, used by the correspondence
    check (model of anf.rs against the A-normal form the compiler really built) *)
From Goml Require Import Common.Base C09.Anf C09.Order C09.Flat C09.Sem.
Open Scope N_scope.

Definition imm_eqb (a b : imm) : bool :=
  match a, b with
  | IVar x, IVar y => list_eqb x y
  | IPrim x, IPrim y => list_eqb x y
  | ITag x, ITag y => x =? y
  | _, _ => false
  end.

Fixpoint imms_eqb (a b : list imm) : bool :=
  match a, b with
  | [], [] => true
  | x :: a', y :: b' => imm_eqb x y && imms_eqb a' b'
  | _, _ => false
  end.

Fixpoint cexpr_eqb (a b : cexpr) {struct a} : bool :=
  match a, b with
  | CImm x, CImm y => imm_eqb x y
  | CConstr c x, CConstr d y => list_eqb c d && imms_eqb x y
  | CTuple x, CTuple y => imms_eqb x y
  | CArray x, CArray y => imms_eqb x y
  | CMatch s arms d, CMatch s' arms' d' =>
      imm_eqb s s' &&
      (fix go (l : list (imm * aexpr)) (l' : list (imm * aexpr)) {struct l} : bool :=
         match l, l' with
         | [], [] => true
         | (p, x) :: r, (p', x') :: r' => imm_eqb p p' && aexpr_eqb x x' && go r r'
         | _, _ => false
         end) arms arms' &&
      match d, d' with Some x, Some y => aexpr_eqb x y | None, None => true | _, _ => false end
  | CIf c t e, CIf c' t' e' => imm_eqb c c' && aexpr_eqb t t' && aexpr_eqb e e'
  | CWhile c x, CWhile c' x' => aexpr_eqb c c' && aexpr_eqb x x'
  | CGet e c i, CGet e' c' i' => imm_eqb e e' && list_eqb c c' && (i =? i')
  | CUn op e, CUn op' e' => (op =? op') && imm_eqb e e'
  | CBin op l r, CBin op' l' r' => (op =? op') && imm_eqb l l' && imm_eqb r r'
  | CCall f x, CCall f' x' => imm_eqb f f' && imms_eqb x x'
  | CToDyn tr e, CToDyn tr' e' => list_eqb tr tr' && imm_eqb e e'
  | CDynCall tr m r x, CDynCall tr' m' r' x' => list_eqb tr tr' && list_eqb m m' && imm_eqb r r' && imms_eqb x x'
  | CGo e, CGo e' => imm_eqb e e'
  | CProj e i, CProj e' i' => imm_eqb e e' && (i =? i')
  | _, _ => false
  end
with aexpr_eqb (a b : aexpr) {struct a} : bool :=
  match a, b with
  | ARet c, ARet d => cexpr_eqb c d
  | ALet x v r, ALet y w s => list_eqb x y && cexpr_eqb v w && aexpr_eqb r s
  | _, _ => false
  end.

Definition desc_eqb (a b : desc) : bool :=
  match a, b with
  | DConstr c n, DConstr d m => list_eqb c d && Nat.eqb n m
  | DTuple n, DTuple m | DArray n, DArray m | DCall n, DCall m => Nat.eqb n m
  | DGet c i, DGet d j => list_eqb c d && (i =? j)
  | DUn o, DUn p | DBin o, DBin p | DProj o, DProj p => o =? p
  | DToDyn t, DToDyn u => list_eqb t u
  | DDynCall t m n, DDynCall u k j => list_eqb t u && list_eqb m k && Nat.eqb n j
  | DGo, DGo => true
  | _, _ => false
  end.

Fixpoint ev_eqb (a b : ev) {struct a} : bool :=
  let evs_eqb := fix go (l l' : list ev) {struct l} : bool :=
    match l, l' with
    | [], [] => true
    | x :: r, y :: r' => ev_eqb x y && go r r'
    | _, _ => false
    end in
  match a, b with
  | EvOp d, EvOp e => desc_eqb d e
  | EvIf t e, EvIf t' e' => evs_eqb t t' && evs_eqb e e'
  | EvWhile c x, EvWhile c' x' => evs_eqb c c' && evs_eqb x x'
  | EvMatch arms d, EvMatch arms' d' =>
      (fix gg (l l' : list (list ev)) {struct l} : bool :=
         match l, l' with
         | [], [] => true
         | x :: r, y :: r' => evs_eqb x y && gg r r'
         | _, _ => false
         end) arms arms' &&
      match d, d' with Some x, Some y => evs_eqb x y | None, None => true | _, _ => false end
  | _, _ => false
  end.

Fixpoint evs_eqb (l l' : list ev) : bool :=
  match l, l' with
  | [], [] => true
  | x :: r, y :: r' => ev_eqb x y && evs_eqb r r'
  | _, _ => false
  end.

(** one function of a compiled program: the lifted body, the start of the temporary counter, the real A-normal form;
    result (model = real, order of real = order of source) *)
Definition corr (body : lexpr) (n0 : N) (real : aexpr) : bool * bool :=
  (aexpr_eqb (fst (anf_fn (depth body) body n0)) real, evs_eqb (ord_a real) (ord_src body)).

(** the hypothesis of [anf_preserves_meaning], decided on a real lifted body *)
Definition covered (body : lexpr) : bool := wfb body.
