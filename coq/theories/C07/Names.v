(** C07 — names of specialised instances: a model of names::ty_compact (the printed type without
    blanks) and of mono::spec_name_for, at the level of tokens and of characters. *)
From Goml Require Import Common.Base.
Open Scope N_scope.

Inductive prim := PUnit | PBool | PInt8 | PInt16 | PInt32 | PInt64 | PUint8 | PUint16 | PUint32 | PUint64 | PFloat32 | PFloat64 | PString.

Inductive ty :=
| TPrim (p : prim)
| TTuple (items : list ty)
| TNamed (name : str)                 (* struct or enum *)
| TDyn (trait : str)
| TApp (base : str) (args : list ty)  (* generic struct/enum applied to arguments *)
| TArray (len : N) (elem : ty)
| TVec (elem : ty)
| TRef (elem : ty)
| TFunc (params : list ty) (ret : ty).

Inductive tk := KName (n : str) | KPrim (p : prim) | KVec | KRef | KDyn | KLP | KRP | KLB | KRB | KComma | KSemi | KArrow | KNum (n : N).

(** ty_compact as a token list *)
Fixpoint toks (t : ty) : list tk :=
  let fix commas (l : list ty) : list tk :=
    match l with
    | [] => []
    | [x] => toks x
    | x :: r => toks x ++ KComma :: commas r
    end in
  match t with
  | TPrim p => [KPrim p]
  | TTuple l => KLP :: commas l ++ [KRP]
  | TNamed n => [KName n]
  | TDyn n => [KDyn; KName n]
  | TApp b a => match a with [] => [KName b] | _ => KName b :: KLB :: commas a ++ [KRB] end
  | TArray n e => KLB :: toks e ++ [KSemi; KNum n; KRB]
  | TVec e => KVec :: KLB :: toks e ++ [KRB]
  | TRef e => KRef :: KLB :: toks e ++ [KRB]
  | TFunc ps r => KLP :: commas ps ++ [KRP; KArrow] ++ toks r
  end.

(** a recursive-descent reader of that token language *)
Fixpoint read (fuel : nat) (ts : list tk) {struct fuel} : option (ty * list tk) :=
  match fuel with
  | O => None
  | S fuel =>
      (* items separated by commas up to (not including) the closing token *)
      let items :=
        fix go (k : nat) (ts : list tk) (close : tk -> bool) {struct k} : option (list ty * list tk) :=
          match k with
          | O => None
          | S k =>
              match ts with
              | t :: r => if close t then Some ([], ts) else
                  match read fuel ts with
                  | Some (x, KComma :: r') => match go k r' close with Some (xs, r'') => Some (x :: xs, r'') | None => None end
                  | Some (x, r') => Some ([x], r')
                  | None => None
                  end
              | [] => None
              end
          end in
      let is_rp := fun t => match t with KRP => true | _ => false end in
      let is_rb := fun t => match t with KRB => true | _ => false end in
      match ts with
      | KPrim p :: r => Some (TPrim p, r)
      | KDyn :: KName n :: r => Some (TDyn n, r)
      | KVec :: KLB :: r => match read fuel r with Some (e, KRB :: r') => Some (TVec e, r') | _ => None end
      | KRef :: KLB :: r => match read fuel r with Some (e, KRB :: r') => Some (TRef e, r') | _ => None end
      | KLB :: r => match read fuel r with Some (e, KSemi :: KNum n :: KRB :: r') => Some (TArray n e, r') | _ => None end
      | KName b :: KLB :: r =>
          match items fuel r is_rb with
          | Some (a, KRB :: r') => Some (TApp b a, r')
          | _ => None
          end
      | KName n :: r => Some (TNamed n, r)
      | KLP :: r =>
          match items fuel r is_rp with
          | Some (l, KRP :: KArrow :: r') => match read fuel r' with Some (ret, r'') => Some (TFunc l ret, r'') | None => None end
          | Some (l, KRP :: r') => Some (TTuple l, r')
          | _ => None
          end
      | _ => None
      end
  end.

(** characters *)
Definition prim_name (p : prim) : str :=
  match p with
  | PUnit => [117;110;105;116] | PBool => [98;111;111;108]
  | PInt8 => [105;110;116;56] | PInt16 => [105;110;116;49;54] | PInt32 => [105;110;116;51;50] | PInt64 => [105;110;116;54;52]
  | PUint8 => [117;105;110;116;56] | PUint16 => [117;105;110;116;49;54] | PUint32 => [117;105;110;116;51;50] | PUint64 => [117;105;110;116;54;52]
  | PFloat32 => [102;108;111;97;116;51;50] | PFloat64 => [102;108;111;97;116;54;52] | PString => [115;116;114;105;110;103]
  end.

Definition tk_text (t : tk) : str :=
  match t with
  | KName n => n | KPrim p => prim_name p | KVec => [86;101;99] | KRef => [82;101;102]
  | KDyn => [100;121;110;126]          (* "dyn~" *)
  | KLP => [40] | KRP => [41] | KLB => [91] | KRB => [93] | KComma => [44] | KSemi => [59]
  | KArrow => [45;62] | KNum n => dec n
  end.

Definition compact (t : ty) : str := concat (map tk_text (toks t)).

(** spec_name_for: orig ++ "__" ++ k1 ++ "_" ++ compact v1 ++ "__" ++ k2 ++ "_" ++ compact v2 ... (keys sorted by the caller) *)
Definition us2 : str := [95;95].
Fixpoint spec_suffix (s : list (str * ty)) : str :=
  match s with
  | [] => []
  | [(k, v)] => k ++ [95] ++ compact v
  | (k, v) :: r => k ++ [95] ++ compact v ++ us2 ++ spec_suffix r
  end.
Definition spec_name (orig : str) (s : list (str * ty)) : str :=
  match s with [] => orig | _ => orig ++ us2 ++ spec_suffix s end.
