(** C07 — pinned statements about instance names *)
From Goml Require Import Common.Base C07.Names C07.Proofs.
Open Scope N_scope.

(** the compact rendering of a type, as a token sequence, determines the type: two different
    instantiations never print alike (generic applications with at least one argument) *)
Theorem printed_type_determines_the_type :
  forall t1 t2, wf t1 = true -> wf t2 = true -> toks t1 = toks t2 -> t1 = t2.
Proof. exact toks_injective. Qed.
Print Assumptions printed_type_determines_the_type.

(** non-vacuity *)
Definition ex_ty : ty :=
  TFunc [TTuple [TPrim PInt32; TApp [66] [TVec (TNamed [80]); TDyn [83]]]; TArray 3 (TRef (TPrim PBool))] (TTuple []).
Example ex_ty_wf_and_read : wf ex_ty = true /\ read 40 (toks ex_ty) = Some (ex_ty, []).
Proof. split; reflexivity. Qed.

(** at the level of characters the name of an instance is NOT determined by the substitution: "__" also
    occurs inside type names (known finding C07-instance-name-separator-collision) *)
Example separator_collision_refuted :
  let X := [88] in let Z := [90] in
  let XUY := [88;95;95;85;95;89] in let YUZ := [89;95;95;85;95;90] in
  spec_name [112] [([84], TNamed XUY); ([85], TNamed Z)] = spec_name [112] [([84], TNamed X); ([85], TNamed YUZ)].
Proof. reflexivity. Qed.
