(** C07 — the printed form of a type determines the type (token level) *)
From Goml Require Import Common.Base C07.Names.
Open Scope nat_scope.

Section TyInd.
Variable P : ty -> Prop.
Hypothesis HPrim : forall p, P (TPrim p).
Hypothesis HTuple : forall l, Forall P l -> P (TTuple l).
Hypothesis HNamed : forall n, P (TNamed n).
Hypothesis HDyn : forall n, P (TDyn n).
Hypothesis HApp : forall b a, Forall P a -> P (TApp b a).
Hypothesis HArray : forall n e, P e -> P (TArray n e).
Hypothesis HVec : forall e, P e -> P (TVec e).
Hypothesis HRef : forall e, P e -> P (TRef e).
Hypothesis HFunc : forall ps r, Forall P ps -> P r -> P (TFunc ps r).
Fixpoint ty_ind' (t : ty) : P t :=
  let fix all (l : list ty) : Forall P l :=
    match l with [] => Forall_nil P | x :: r => Forall_cons x (ty_ind' x) (all r) end in
  match t with
  | TPrim p => HPrim p
  | TTuple l => HTuple l (all l)
  | TNamed n => HNamed n
  | TDyn n => HDyn n
  | TApp b a => HApp b a (all a)
  | TArray n e => HArray n e (ty_ind' e)
  | TVec e => HVec e (ty_ind' e)
  | TRef e => HRef e (ty_ind' e)
  | TFunc ps r => HFunc ps r (all ps) (ty_ind' r)
  end.
End TyInd.

(** generic applications carry at least one argument (the printer writes [b] for none, like a plain name) *)
Fixpoint wf (t : ty) : bool :=
  let fix all (l : list ty) : bool := match l with [] => true | x :: r => wf x && all r end in
  match t with
  | TPrim _ | TNamed _ | TDyn _ => true
  | TTuple l => all l
  | TApp _ a => negb (match a with [] => true | _ => false end) && all a
  | TArray _ e | TVec e | TRef e => wf e
  | TFunc ps r => all ps && wf r
  end.

Fixpoint commas (l : list ty) : list tk :=
  match l with
  | [] => []
  | [x] => toks x
  | x :: r => toks x ++ KComma :: commas r
  end.

(** what may follow a printed type: not an opening bracket (it would turn a name into an application) and
    not an arrow (it would turn a tuple into a function type) *)
Definition ok_rest (rest : list tk) : Prop := match rest with KLB :: _ | KArrow :: _ => False | _ => True end.

Definition EV {A} (X : nat -> option A) (r : A) : Prop := exists f0, forall f, f0 <= f -> X f = Some r.

Definition Reads (t : ty) : Prop :=
  wf t = true -> forall rest, ok_rest rest -> EV (fun f => read f (toks t ++ rest)) (t, rest).

(** the item reader of [read], as a function of the outer fuel *)
Definition items (fuel : nat) :=
  fix go (k : nat) (ts : list tk) (close : tk -> bool) {struct k} : option (list ty * list tk) :=
    match k with
    | O => None
    | S k =>
        match ts with
        | t :: r => if close t then Some ([], ts) else
            match read fuel ts with
            | Some (x, KComma :: r') => match go k r' close with Some (xs, r'') => Some (x :: xs, r'') | None => None end
            | Some (x, r') => Some ([x], r')
            | None => None
            end
        | [] => None
        end
    end.

Definition is_close (c : tk) : Prop := c = KRP \/ c = KRB.

Lemma toks_head_not_close t : forall rest c close,
  (forall x, close x = true -> x = c) -> is_close c ->
  exists h q, toks t ++ rest = h :: q /\ close h = false.
Proof.
  intros rest c close Hc Hcl.
  assert (G : forall h, h <> KRP -> h <> KRB -> close h = false).
  { intros h H1 H2. destruct (close h) eqn:E; [|reflexivity]. apply Hc in E. destruct Hcl; subst; congruence. }
  destruct t as [p|l|n|n|b a|n e|e|e|ps r]; cbn [toks app]; try (eexists; eexists; split; [reflexivity|apply G; discriminate]).
  destruct a; cbn [app]; eexists; eexists; (split; [reflexivity|apply G; discriminate]).
Qed.

Lemma items_read (l : list ty) (close : tk -> bool) (c : tk) rest :
  (forall x, close x = true -> x = c) -> close c = true -> is_close c ->
  Forall Reads l -> Forall (fun x => wf x = true) l ->
  exists f0, forall f k, f0 <= f -> length l < k -> items f k (commas l ++ c :: rest) close = Some (l, c :: rest).
Proof.
  intros Hc Hcc Hcl HR. induction HR as [|x l Rx Rl IH]; intros Hw.
  - exists 0. intros f k _ Hk. destruct k as [|k]; [cbn in Hk; lia|]. cbn [commas app items]. rewrite Hcc. reflexivity.
  - inversion Hw as [|? ? Wx Wl]; subst. destruct (IH Wl) as [f1 G1]. destruct l as [|y l].
    + (* last item *)
      assert (OR : ok_rest (c :: rest)) by (destruct Hcl; subst; exact I).
      destruct (Rx Wx (c :: rest) OR) as [f2 G2].
      exists f2. intros f k Hf Hk. destruct k as [|k]; [cbn in Hk; lia|].
      cbn [commas]. destruct (toks_head_not_close x (c :: rest) c close Hc Hcl) as [h [q [E Hh]]].
      cbn [items]. rewrite E, Hh, <- E, (G2 f Hf).
      destruct Hcl; subst; reflexivity.
    + assert (OR : ok_rest (KComma :: commas (y :: l) ++ c :: rest)) by exact I.
      destruct (Rx Wx _ OR) as [f2 G2].
      exists (Nat.max f1 f2). intros f k Hf Hk. destruct k as [|k]; [cbn in Hk; lia|].
      change (commas (x :: y :: l)) with (toks x ++ KComma :: commas (y :: l)).
      rewrite <- app_assoc. cbn [app].
      destruct (toks_head_not_close x (KComma :: commas (y :: l) ++ c :: rest) c close Hc Hcl) as [h [q [E Hh]]].
      cbn [items]. rewrite E, Hh, <- E, (G2 f ltac:(lia)).
      fold (items f). rewrite (G1 f k ltac:(lia) ltac:(cbn [length] in *; lia)). reflexivity.
Qed.

Lemma read_app f b r : read (S f) (KName b :: KLB :: r) =
  match items f f r (fun t => match t with KRB => true | _ => false end) with
  | Some (a, KRB :: r') => Some (TApp b a, r')
  | _ => None
  end.
Proof. reflexivity. Qed.

Lemma read_paren f r : read (S f) (KLP :: r) =
  match items f f r (fun t => match t with KRP => true | _ => false end) with
  | Some (l, KRP :: KArrow :: r') => match read f r' with Some (ret, r'') => Some (TFunc l ret, r'') | None => None end
  | Some (l, KRP :: r') => Some (TTuple l, r')
  | _ => None
  end.
Proof. reflexivity. Qed.

Lemma wf_all (l : list ty) :
  (fix all (l : list ty) : bool := match l with [] => true | x :: r => wf x && all r end) l = true ->
  Forall (fun x => wf x = true) l.
Proof.
  induction l as [|x l IH]; intros H; [constructor|]. apply andb_true_iff in H. destruct H. constructor; auto.
Qed.

Lemma toks_commas_eq (l : list ty) :
  (fix commas (l : list ty) : list tk := match l with [] => [] | [x] => toks x | x :: r => toks x ++ KComma :: commas r end) l = commas l.
Proof. reflexivity. Qed.

Lemma toks_app b a : a <> [] -> toks (TApp b a) = KName b :: KLB :: commas a ++ [KRB].
Proof. destruct a; [intros H; contradiction|reflexivity]. Qed.

Theorem all_read : forall t, Reads t.
Proof.
  induction t as [p|l IHl|n|n|b a IHa|n e IHe|e IHe|e IHe|ps r IHps IHr] using ty_ind'; intros Hw rest Hr.
  - exists 1. intros f Hf. destruct f as [|f]; [lia|]. reflexivity.
  - (* tuple *)
    cbn [wf] in Hw. apply wf_all in Hw.
    destruct (items_read l (fun t => match t with KRP => true | _ => false end) KRP rest) as [f0 G]; auto.
    { intros x Hx. destruct x; try discriminate; reflexivity. } { left; reflexivity. }
    exists (S (Nat.max f0 (S (length l)))). intros f Hf. destruct f as [|f]; [lia|].
    cbn [toks]. rewrite toks_commas_eq. cbn [app]. rewrite <- app_assoc. cbn [app].
    rewrite read_paren, (G f f ltac:(lia) ltac:(lia)).
    destruct rest as [|h q]; [reflexivity|]. destruct h; try reflexivity. destruct Hr.
  - (* named *)
    exists 1. intros f Hf. destruct f as [|f]; [lia|]. cbn [toks app].
    destruct rest as [|h q]; [reflexivity|]. destruct h; try reflexivity. destruct Hr.
  - exists 1. intros f Hf. destruct f as [|f]; [lia|]. reflexivity.
  - (* application *)
    cbn [wf] in Hw. apply andb_true_iff in Hw. destruct Hw as [Hne Hw]. apply wf_all in Hw.
    destruct a as [|x a]; [discriminate Hne|].
    destruct (items_read (x :: a) (fun t => match t with KRB => true | _ => false end) KRB rest) as [f0 G]; auto.
    { intros y Hy. destruct y; try discriminate; reflexivity. } { right; reflexivity. }
    exists (S (Nat.max f0 (S (length (x :: a))))). intros f Hf. destruct f as [|f]; [lia|].
    rewrite toks_app by discriminate. cbn [app]. rewrite <- app_assoc. cbn [app].
    rewrite read_app, (G f f ltac:(lia) ltac:(lia)). reflexivity.
  - (* array *)
    cbn [wf] in Hw. destruct (IHe Hw (KSemi :: KNum n :: KRB :: rest) I) as [f0 G].
    exists (S f0). intros f Hf. destruct f as [|f]; [lia|].
    cbn [toks app]. rewrite <- app_assoc. cbn [app read]. rewrite (G f ltac:(lia)). reflexivity.
  - cbn [wf] in Hw. destruct (IHe Hw (KRB :: rest) I) as [f0 G].
    exists (S f0). intros f Hf. destruct f as [|f]; [lia|].
    cbn [toks app]. rewrite <- app_assoc. cbn [app read]. rewrite (G f ltac:(lia)). reflexivity.
  - cbn [wf] in Hw. destruct (IHe Hw (KRB :: rest) I) as [f0 G].
    exists (S f0). intros f Hf. destruct f as [|f]; [lia|].
    cbn [toks app]. rewrite <- app_assoc. cbn [app read]. rewrite (G f ltac:(lia)). reflexivity.
  - (* function type *)
    cbn [wf] in Hw. apply andb_true_iff in Hw. destruct Hw as [Hps Hwr]. apply wf_all in Hps.
    destruct (items_read ps (fun t => match t with KRP => true | _ => false end) KRP (KArrow :: toks r ++ rest)) as [f0 G]; auto.
    { intros x Hx. destruct x; try discriminate; reflexivity. } { left; reflexivity. }
    destruct (IHr Hwr rest Hr) as [f1 G1].
    exists (S (Nat.max (Nat.max f0 f1) (S (length ps)))). intros f Hf. destruct f as [|f]; [lia|].
    cbn [toks]. rewrite toks_commas_eq. cbn [app]. rewrite <- !app_assoc. cbn [app].
    rewrite read_paren, (G f f ltac:(lia) ltac:(lia)), (G1 f ltac:(lia)). reflexivity.
Qed.

(** the printed tokens determine the type *)
Theorem toks_injective : forall t1 t2, wf t1 = true -> wf t2 = true -> toks t1 = toks t2 -> t1 = t2.
Proof.
  intros t1 t2 W1 W2 E.
  destruct (all_read t1 W1 [] I) as [f1 G1]. destruct (all_read t2 W2 [] I) as [f2 G2].
  pose proof (G1 (Nat.max f1 f2) ltac:(lia)) as A. pose proof (G2 (Nat.max f1 f2) ltac:(lia)) as B.
  rewrite E in A. rewrite A in B. inversion B. reflexivity.
Qed.
