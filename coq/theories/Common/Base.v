(** Common base: byte/character classes, decimal rendering. Strings are [list N]
    (code points or bytes). *)
From Coq Require Export List NArith ZArith Lia Bool.
From Coq Require Import DecimalN DecimalFacts.
From Coq Require Export ZifyBool ZifyN ZifyNat.
Export ListNotations.
Open Scope N_scope.

Arguments N.add : simpl never.
Arguments N.sub : simpl never.
Arguments N.mul : simpl never.
Arguments N.div : simpl never.
Arguments N.modulo : simpl never.
Arguments N.eqb : simpl never.
Arguments N.ltb : simpl never.
Arguments N.leb : simpl never.

Definition str := list N.

Fixpoint list_eqb (a b : str) : bool :=
  match a, b with
  | [], [] => true
  | x :: a', y :: b' => (x =? y) && list_eqb a' b'
  | _, _ => false
  end.

Lemma list_eqb_spec a b : list_eqb a b = true <-> a = b.
Proof.
  revert b; induction a as [|x a IH]; intros [|y b]; cbn [list_eqb]; split; intro H;
    try discriminate; try reflexivity.
  - apply andb_true_iff in H as [H1 H2]. apply N.eqb_eq in H1. apply IH in H2. congruence.
  - injection H as -> ->. rewrite N.eqb_refl. cbn. apply IH. reflexivity.
Qed.

Definition is_upper (c : N) := (65 <=? c) && (c <=? 90).
Definition is_lower (c : N) := (97 <=? c) && (c <=? 122).
Definition is_alpha (c : N) := is_upper c || is_lower c.
Definition is_digit (c : N) := (48 <=? c) && (c <=? 57).
Definition is_alnum (c : N) := is_alpha c || is_digit c.

(** decimal rendering of a natural number as ASCII digits (Rust [{}] of a
    non-negative integer) *)
Fixpoint uint_digits (u : Decimal.uint) : str :=
  match u with
  | Decimal.Nil => []
  | Decimal.D0 u => 48 :: uint_digits u
  | Decimal.D1 u => 49 :: uint_digits u
  | Decimal.D2 u => 50 :: uint_digits u
  | Decimal.D3 u => 51 :: uint_digits u
  | Decimal.D4 u => 52 :: uint_digits u
  | Decimal.D5 u => 53 :: uint_digits u
  | Decimal.D6 u => 54 :: uint_digits u
  | Decimal.D7 u => 55 :: uint_digits u
  | Decimal.D8 u => 56 :: uint_digits u
  | Decimal.D9 u => 57 :: uint_digits u
  end.

Definition dec (n : N) : str := uint_digits (N.to_uint n).

Lemma uint_digits_inj u v : uint_digits u = uint_digits v -> u = v.
Proof.
  revert v; induction u; intros v H; destruct v; cbn in H; try discriminate;
    try reflexivity; injection H as H; f_equal; auto.
Qed.

Lemma dec_inj n m : dec n = dec m -> n = m.
Proof.
  unfold dec; intro H. apply uint_digits_inj in H.
  rewrite <- (DecimalN.Unsigned.of_to n), <- (DecimalN.Unsigned.of_to m). now rewrite H.
Qed.

Lemma uint_digits_all_digits u : forallb is_digit (uint_digits u) = true.
Proof. induction u; cbn; auto. Qed.

Lemma dec_all_digits n : forallb is_digit (dec n) = true.
Proof. apply uint_digits_all_digits. Qed.

Lemma dec_nonempty n : dec n <> [].
Proof.
  unfold dec. destruct n as [|p]; [discriminate|].
  intro H. assert (N.to_uint (N.pos p) = Decimal.Nil) by (destruct (N.to_uint (N.pos p)); cbn in H; try discriminate; reflexivity).
  pose proof (DecimalN.Unsigned.of_to (N.pos p)) as E. rewrite H0 in E. discriminate.
Qed.

(** correspondence helper: indices of the cases on which [f] and the recorded
    implementation result differ (evaluated with vm_compute by the driver) *)
Fixpoint mismatches_from {A B} (eqb : B -> B -> bool) (f : A -> B) (cs : list (A * B)) (i : N) : list N :=
  match cs with
  | [] => []
  | (a, b) :: r =>
      if eqb (f a) b then mismatches_from eqb f r (i + 1)
      else i :: mismatches_from eqb f r (i + 1)
  end.
Definition mismatches {A B} eqb (f : A -> B) cs := mismatches_from eqb f cs 0.
