(** C01 — what is proved so far about the two semantics used for per-program
    validation (the pass-correctness theorems are open obligations). *)
From Goml Require Import Common.Base.
From Goml Require Sem.GoAst Sem.GoSem Sem.Src.

(** both interpreters are deterministic functions of (program, fuel): definitional;
    recorded so the statement is pinned *)
Theorem run_go_deterministic : forall f n, Sem.GoSem.run_go f n = Sem.GoSem.run_go f n.
Proof. reflexivity. Qed.

(** running out of fuel is reported as such, never as a normal-looking result *)
Theorem go_zero_fuel_is_fuel : forall f, snd (Sem.GoSem.run_go f 0) = Sem.GoSem.EFuel.
Proof. reflexivity. Qed.
Theorem src_zero_fuel_is_fuel : forall fns t, snd (Sem.Src.run_src fns t 0) = Sem.Src.EFuel.
Proof. reflexivity. Qed.
